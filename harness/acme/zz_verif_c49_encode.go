//go:build verif

package acme

import (
	"crypto"
	"crypto/ecdsa"
	"crypto/elliptic"
	"crypto/hmac"
	"crypto/rsa"
	"crypto/sha256"
	"crypto/sha512"
	"encoding/json"
	"errors"
	"hash"
	"math/big"

	"golang.org/x/crypto/internal/verifrt"
)

// ---- model of encoding/json.Marshal for the four value shapes marshalled by jws.go ----
//
// encoding/json (reflection) does not run in the engine. The stub renders exactly what
// json.Marshal produces for these struct types when every string consists of lower-case letters,
// digits or the punctuation of the harness' concrete URLs (no JSON/HTML escaping applies): members
// in field order, `omitempty` members dropped when empty, json.RawMessage inserted verbatim.
// Natively the real json.Marshal runs, and the harnesses compare complete output texts, so a
// modelling error shows up as a non-reproducible counterexample (INCONCLUSIVE), not as a pass.

type c49Hdr = struct {
	Alg   string          `json:"alg"`
	KID   string          `json:"kid,omitempty"`
	JWK   json.RawMessage `json:"jwk,omitempty"`
	Nonce string          `json:"nonce,omitempty"`
	URL   string          `json:"url"`
}

type c49MacHdr = struct {
	Algorithm string `json:"alg"`
	KID       string `json:"kid"`
	URL       string `json:"url,omitempty"`
}

type c49Claims struct {
	A string `json:"a"`
}

//verif:stub encoding/json.Marshal
func c49StubMarshal(v any) ([]byte, error) {
	switch x := v.(type) {
	case c49Hdr:
		s := `{"alg":"` + x.Alg + `"`
		if x.KID != "" {
			s += `,"kid":"` + x.KID + `"`
		}
		if len(x.JWK) != 0 {
			s += `,"jwk":` + string(x.JWK)
		}
		if x.Nonce != "" {
			s += `,"nonce":"` + x.Nonce + `"`
		}
		return []byte(s + `,"url":"` + x.URL + `"}`), nil
	case c49MacHdr:
		s := `{"alg":"` + x.Algorithm + `","kid":"` + x.KID + `"`
		if x.URL != "" {
			s += `,"url":"` + x.URL + `"`
		}
		return []byte(s + `}`), nil
	case *jsonWebSignature:
		return []byte(`{"protected":"` + x.Protected + `","payload":"` + x.Payload + `","signature":"` + x.Sig + `"}`), nil
	case c49Claims:
		return []byte(`{"a":"` + x.A + `"}`), nil
	}
	verifrt.Assert(false, "harness: json.Marshal of an unmodelled value")
	return nil, errors.New("verif: unmodelled json.Marshal")
}

// c49Init forces the package initialisers of crypto/sha256 and crypto/sha512 (hash registration
// consulted by crypto.Hash.Available): the engine initialises packages lazily at first use, which
// misses imports made for their side effects only.
func c49Init() {
	sha256.New()
	sha512.New()
}

// c49Word: a symbolic string of n lower-case letters.
func c49Word(n int) string {
	b := verifrt.Bytes(n)
	for i := range b {
		verifrt.Assume(b[i]-'a' <= 25)
	}
	return string(b)
}

// c49EncodeEC: jwsEncodeJSON with an ECDSA account key of curve ci, symbolic nonce (0 or 4
// letters), key ID empty (JWK form) or a URL with a symbolic part (KID form), payload either
// noPayload (POST-as-GET) or a struct claimset. The complete output must be the flattened JWS
// JSON serialisation whose protected header is {"alg":ESxxx, then "jwk":<jwkEncode text> iff
// kid is empty else "kid":<kid>, "nonce" (omitted only if the nonce is empty), "url"}, payload ""
// resp. base64url(JSON claimset), signature base64url(R||S fixed width), and the signer must
// have been handed exactly protected || "." || payload with the curve's hash.
func c49EncodeEC(ci int) {
	c49Init()
	curve, name, size, alg, hash := c49Curve(ci)
	x, xb := c49Big(c49Len(size, false), c49TopMax(size))
	y, yb := c49Big(size, c49TopMax(size))
	r, rb := c49Big(c49Len(size, false), c49TopMax(size))
	s, sb := c49Big(size, c49TopMax(size))
	key := &c49Signer{pub: &ecdsa.PublicKey{Curve: curve, X: x, Y: y}, r: r, s: s}
	url := "https://ca.example/acme/new-" + c49Word(2)
	nonce := c49Word(4 * verifrt.Choose(0, 1))
	kid := KeyID("")
	if verifrt.Choose(0, 1) == 1 {
		kid = KeyID("https://ca.example/acct/" + c49Word(2))
	}
	var claims interface{} = noPayload
	wantPayload := ""
	if verifrt.Choose(0, 1) == 1 {
		a := c49Word(3)
		claims = c49Claims{A: a}
		wantPayload = c49B64([]byte(`{"a":"` + a + `"}`))
	}
	out, err := jwsEncodeJSON(claims, key, kid, nonce, url)
	verifrt.Assert(err == nil, "jwsEncodeJSON succeeds")
	if err != nil {
		return
	}
	ph := `{"alg":"` + alg + `"`
	if kid == "" {
		verifrt.Reach("jwk-form")
		ph += `,"jwk":{"crv":"` + name + `","kty":"EC","x":"` + c49B64(c49Pad(xb, size)) + `","y":"` + c49B64(c49Pad(yb, size)) + `"}`
	} else {
		verifrt.Reach("kid-form")
		ph += `,"kid":"` + string(kid) + `"`
	}
	if nonce != "" {
		ph += `,"nonce":"` + nonce + `"`
	}
	ph += `,"url":"` + url + `"}`
	prot := c49B64([]byte(ph))
	sig := append(c49Pad(rb, size), c49Pad(sb, size)...)
	want := `{"protected":"` + prot + `","payload":"` + wantPayload + `","signature":"` + c49B64(sig) + `"}`
	verifrt.Assert(string(out) == want, "JWS JSON text")
	verifrt.Assert(key.called == 1 && key.hash == hash, "signer called once with the curve's hash")
	verifrt.Assert(string(key.msg) == prot+"."+wantPayload, "signing input is protected.payload")
}

func Verif_C49_EncodeP256() { c49EncodeEC(0) }
func Verif_C49_EncodeP384() { c49EncodeEC(1) }
func Verif_C49_EncodeP521() { c49EncodeEC(2) }

// c49MinBytes: minimal big-endian encoding of v > 0.
func c49MinBytes(v uint32) []byte {
	switch {
	case v>>24 != 0:
		return []byte{byte(v >> 24), byte(v >> 16), byte(v >> 8), byte(v)}
	case v>>16 != 0:
		return []byte{byte(v >> 16), byte(v >> 8), byte(v)}
	case v>>8 != 0:
		return []byte{byte(v >> 8), byte(v)}
	}
	return []byte{byte(v)}
}

// Verif_C49_EncodeRSA: RSA account key with a symbolic modulus of 1..9 or 33 bytes and EVERY public
// exponent 0 < E < 2^31: jwkEncode gives {"e":"<b64url(minimal E)>","kty":"RSA","n":"<b64url(N)>"};
// jwsEncodeJSON (JWK or KID form) yields alg RS256, signs protected.payload with SHA-256 and
// inserts the signer's signature bytes unchanged; JWKThumbprint is base64url(SHA-256(JWK text))
// (SHA-256 as an uninterpreted function).
func Verif_C49_EncodeRSA() {
	c49Init()
	nn := verifrt.Choose(1, 10)
	if nn == 10 {
		nn = 33
	}
	n, nb := c49Big(nn, 0)
	e := int(verifrt.U32())
	verifrt.Assume(e > 0 && e < 1<<31)
	pub := &rsa.PublicKey{N: n, E: e}
	jwk := `{"e":"` + c49B64(c49MinBytes(uint32(e))) + `","kty":"RSA","n":"` + c49B64(nb) + `"}`
	got, err := jwkEncode(pub)
	verifrt.Assert(err == nil && got == jwk, "RSA JWK text")

	tp, err := JWKThumbprint(pub)
	d := c49SHA256([]byte(jwk))
	verifrt.Assert(err == nil && tp == c49B64(d[:]), "thumbprint is base64url(SHA-256(JWK))")

	raw := verifrt.Bytes(5)
	key := &c49Signer{pub: pub, raw: raw}
	url := "https://ca.example/acme/new-" + c49Word(2)
	nonce := c49Word(4)
	kid := KeyID("")
	if verifrt.Choose(0, 1) == 1 {
		kid = KeyID("https://ca.example/acct/" + c49Word(2))
	}
	out, err := jwsEncodeJSON(noPayload, key, kid, nonce, url)
	verifrt.Assert(err == nil, "jwsEncodeJSON succeeds")
	if err != nil {
		return
	}
	ph := `{"alg":"RS256"`
	if kid == "" {
		verifrt.Reach("jwk-form")
		ph += `,"jwk":` + jwk
	} else {
		verifrt.Reach("kid-form")
		ph += `,"kid":"` + string(kid) + `"`
	}
	ph += `,"nonce":"` + nonce + `","url":"` + url + `"}`
	prot := c49B64([]byte(ph))
	want := `{"protected":"` + prot + `","payload":"","signature":"` + c49B64(raw) + `"}`
	verifrt.Assert(string(out) == want, "JWS JSON text")
	verifrt.Assert(key.called == 1 && key.hash == crypto.SHA256, "signer called once with SHA-256")
	verifrt.Assert(string(key.msg) == prot+".", "signing input is protected.payload")
}

// SHA-256 and HMAC-SHA256 as uninterpreted functions (natively the real primitives).

//verif:stub crypto/sha256.Sum256
func c49StubSum256(b []byte) [32]byte { return c49SHA256(b) }

func c49SHA256(b []byte) (out [32]byte) {
	if !verifrt.Symbolic() {
		return sha256.Sum256(b)
	}
	copy(out[:], verifrt.UFBytes("sha256", 32, b))
	return
}

type c49MAC struct{ key, data []byte }

func (m *c49MAC) Write(p []byte) (int, error) { m.data = append(m.data, p...); return len(p), nil }
func (m *c49MAC) Sum(b []byte) []byte         { return append(b, c49HMAC(m.key, m.data)...) }
func (m *c49MAC) Reset()                      { m.data = nil }
func (m *c49MAC) Size() int                   { return 32 }
func (m *c49MAC) BlockSize() int              { return 64 }

//verif:stub crypto/hmac.New
func c49StubHMACNew(h func() hash.Hash, key []byte) hash.Hash {
	return &c49MAC{key: append([]byte(nil), key...)}
}

func c49HMAC(key, msg []byte) []byte {
	if !verifrt.Symbolic() {
		m := hmac.New(sha256.New, key)
		m.Write(msg)
		return m.Sum(nil)
	}
	return verifrt.UFBytes("hmac-sha256", 32, key, msg)
}

// Verif_C49_MAC: jwsWithMAC (external account binding) for a symbolic MAC key of 1..3 or 32 bytes,
// symbolic key ID, URL present or empty and a symbolic 5-byte payload: protected header is
// {"alg":"HS256","kid":K[,"url":U]}, payload base64url(raw payload), signature
// base64url(HMAC-SHA256(key, protected || "." || payload)); an empty key is rejected.
func Verif_C49_MAC() {
	nk := verifrt.Choose(0, 4)
	if nk == 4 {
		nk = 32
	}
	key := verifrt.Bytes(nk)
	kid := c49Word(3)
	url := ""
	if verifrt.Choose(0, 1) == 1 {
		url = "https://ca.example/acme/new-" + c49Word(2)
	}
	raw := verifrt.Bytes(5)
	jws, err := jwsWithMAC(key, kid, url, raw)
	if nk == 0 {
		verifrt.Reach("empty-key")
		verifrt.Assert(err != nil && jws == nil, "empty MAC key rejected")
		return
	}
	verifrt.Assert(err == nil && jws != nil, "jwsWithMAC succeeds")
	if err != nil || jws == nil {
		return
	}
	verifrt.Reach("mac")
	ph := `{"alg":"HS256","kid":"` + kid + `"`
	if url != "" {
		ph += `,"url":"` + url + `"`
	}
	prot := c49B64([]byte(ph + `}`))
	pl := c49B64(raw)
	verifrt.Assert(jws.Protected == prot, "protected header text")
	verifrt.Assert(jws.Payload == pl, "payload is base64url(raw)")
	verifrt.Assert(jws.Sig == c49B64(c49HMAC(key, []byte(prot+"."+pl))), "signature is HMAC-SHA256 over protected.payload")
}

// Verif_C49_Unsupported: keys other than RSA / ECDSA P-256, P-384, P-521 are refused by
// jwsEncodeJSON, jwkEncode (non RSA/EC) and JWKThumbprint with ErrUnsupportedKey; a nil key is
// refused. (P-224 is an ECDSA key without a JWS algorithm.) Concrete cases; the symbolic part is
// the nonce.
func Verif_C49_Unsupported() {
	c49Init()
	nonce := c49Word(4)
	_, err := jwsEncodeJSON(noPayload, nil, "", nonce, "https://ca.example/x")
	verifrt.Assert(err != nil, "nil key refused")
	x, _ := c49Big(28, 0)
	k224 := &c49Signer{pub: &ecdsa.PublicKey{Curve: c49P224(), X: x, Y: big.NewInt(1)}, r: big.NewInt(1), s: big.NewInt(1)}
	_, err = jwsEncodeJSON(noPayload, k224, "", nonce, "https://ca.example/x")
	verifrt.Assert(err == ErrUnsupportedKey && k224.called == 0, "P-224 key refused, nothing signed")
	kOther := &c49Signer{pub: c49Word(3)}
	_, err = jwsEncodeJSON(noPayload, kOther, "", nonce, "https://ca.example/x")
	verifrt.Assert(err == ErrUnsupportedKey && kOther.called == 0, "unknown key type refused, nothing signed")
	_, err = JWKThumbprint(kOther.pub)
	verifrt.Assert(err == ErrUnsupportedKey, "thumbprint of unknown key type refused")
	verifrt.Reach("refused")
}

func c49P224() elliptic.Curve { return elliptic.P224() }
