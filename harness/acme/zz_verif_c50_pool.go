//go:build verif

package acme

import (
	"context"
	"net/http"
	"time"

	"golang.org/x/crypto/internal/verifrt"
)

// Verif_C50_Pool: unit-level nonce pool operations on a Client whose pool holds k distinct nonces
// (k in {0..3, maxNonces-1, maxNonces}; the pool is only ever modified by addNonce / popNonce /
// clearNonces, which maintain "set of at most maxNonces non-empty strings" - asserted here as
// preserved). addNonce(h) with a symbolic 2-byte Replay-Nonce value or no header: stored iff present,
// non-empty and the pool is below maxNonces; the pool never exceeds maxNonces. popNonce on a
// non-empty pool returns a member and deletes exactly that member (size - 1, no network access:
// the HTTP layer would dereference a nil context here). clearNonces empties the pool.
func Verif_C50_Pool() {
	c := &Client{}
	k := verifrt.Choose(0, 5)
	if k >= 4 {
		k = maxNonces - 5 + k // 99, 100
	}
	for i := 0; i < k; i++ {
		c.addNonce(http.Header{"Replay-Nonce": []string{c50PoolName(i)}})
	}
	verifrt.Assert(len(c.nonces) == k, "pool filled with k distinct nonces")

	// addNonce
	h := http.Header{}
	nv := ""
	if verifrt.Choose(0, 1) == 1 {
		b := verifrt.Bytes(2)
		verifrt.Assume(b[0]-'a' <= 25 && b[1]-'a' <= 25) // lower-case letters: differs from the digits-only pool names
		nv = string(b)
		h["Replay-Nonce"] = []string{nv}
	}
	c.addNonce(h)
	_, stored := c.nonces[nv]
	verifrt.Assert(len(c.nonces) <= maxNonces, "pool never exceeds maxNonces")
	if nv != "" && k < maxNonces {
		verifrt.Reach("stored")
		verifrt.Assert(stored && len(c.nonces) == k+1, "fresh nonce stored")
	} else {
		verifrt.Reach("not-stored")
		verifrt.Assert(!stored && len(c.nonces) == k, "absent nonce or full pool: nothing stored")
	}

	// popNonce
	n := len(c.nonces)
	if n > 0 {
		v, err := c.popNonce(context.Background(), "https://ca.example/x")
		_, still := c.nonces[v]
		verifrt.Assert(err == nil && v != "", "popNonce on a non-empty pool succeeds")
		verifrt.Assert(!still && len(c.nonces) == n-1, "popNonce deletes exactly the nonce it returns")
		verifrt.Assert(v == nv || c50IsPoolName(v, k), "popNonce returns a member of the pool")
		verifrt.Reach("popped")
	}
	c.clearNonces()
	verifrt.Assert(len(c.nonces) == 0, "clearNonces empties the pool")
}

func c50PoolName(i int) string {
	return string([]byte{'0' + byte(i/100), '0' + byte(i/10%10), '0' + byte(i%10)})
}

func c50IsPoolName(v string, k int) bool {
	for i := 0; i < k; i++ {
		if v == c50PoolName(i) {
			return true
		}
	}
	return false
}

// Verif_C50_RetryAfter: retryAfter(v) for v = 1..3 symbolic decimal digits, optionally preceded
// by '-': the value is that many seconds (strconv.Atoi runs as real code); and defaultBackoff with
// such a Retry-After header returns it plus a jitter of 1..1000 ms for any retry number n (the
// exponential delay and the 10 s ceiling do not apply; observed consequence recorded in the notes:
// a non-positive header value can make the result non-positive, which ends the retries).
// Unparsable values (a letter) give 0 (http.ParseTime, stubbed: HTTP-date forms are outside).
func Verif_C50_RetryAfter() {
	nd := verifrt.Choose(1, 3)
	d := verifrt.Bytes(nd)
	val := 0
	for i := range d {
		verifrt.Assume(d[i]-'0' <= 9)
		val = val*10 + int(d[i]-'0')
	}
	s := string(d)
	switch verifrt.Choose(0, 2) {
	case 1:
		s = "-" + s
		val = -val
	case 2:
		s = "x" + s
	}
	got := retryAfter(s)
	if s[0] == 'x' {
		verifrt.Reach("unparsable")
		verifrt.Assert(got == 0, "unparsable Retry-After gives 0")
		return
	}
	verifrt.Reach("seconds")
	verifrt.Assert(got == time.Duration(val)*time.Second, "Retry-After seconds honoured")
	n := verifrt.Int()
	res := &http.Response{Header: http.Header{"Retry-After": []string{s}}}
	c50RandFails = false
	b := defaultBackoff(n, nil, res)
	j := b - got
	if verifrt.Symbolic() {
		verifrt.Assert(j >= time.Millisecond && j <= time.Second && j%time.Millisecond == 0, "Retry-After + jitter of 1..1000 ms, for every n")
	} else {
		verifrt.Assert(j >= time.Millisecond && j <= time.Second, "Retry-After + jitter of 1..1000 ms, for every n")
	}
	if val > 0 {
		verifrt.Assert(b > 0, "positive Retry-After gives a positive delay")
	}
}

// HTTP-date parsing is outside the claim: http.ParseTime is only reached with values starting
// with a letter in this harness and fails on them.
//
//verif:stub net/http.ParseTime
func c50StubParseTime(text string) (time.Time, error) {
	if len(text) > 0 && text[0] == 'x' {
		return time.Time{}, http.ErrNotSupported
	}
	verifrt.Assert(false, "harness: http.ParseTime outside the modelled inputs")
	return time.Time{}, http.ErrNotSupported
}
