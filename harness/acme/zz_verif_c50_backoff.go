//go:build verif

package acme

import (
	"io"
	"math/big"
	"net/http"
	"time"

	"golang.org/x/crypto/internal/verifrt"
)

// Contract stub of crypto/rand.Int(rand.Reader, max): an arbitrary value in [0, max) (or an
// error, see c50RandFails). Only called with max = 1000 on the paths explored here. Natively
// the real generator runs.
//
//verif:stub crypto/rand.Int
func c50StubRandInt(r io.Reader, max *big.Int) (*big.Int, error) {
	if c50RandFails {
		return nil, io.ErrUnexpectedEOF
	}
	m := max.Int64()
	v := int64(verifrt.U16())
	verifrt.Assume(v < m)
	return big.NewInt(v), nil
}

var c50RandFails bool

// Verif_C50_DefaultBackoff: defaultBackoff(n, r, res) without a Retry-After header, for ALL int
// n (negative, zero, huge): never panics; the retry number is clamped to 1..30 as coded, i.e.
// the delay is 1s, 2s, 4s, 8s plus a jitter of 1..1000 whole milliseconds for n <= 1, 2, 3, 4
// and exactly the 10s ceiling for every n >= 5; hence always in (0, 10s] (no shift overflow
// to zero/negative for large n). With a failing random source the jitter is 0 and the delay is
// still positive.
func Verif_C50_DefaultBackoff() {
	n := verifrt.Int()
	c50RandFails = verifrt.Symbolic() && verifrt.Choose(0, 1) == 1
	res := &http.Response{Header: http.Header{}}
	var d time.Duration
	p := verifrt.Panics(func() { d = defaultBackoff(n, nil, res) })
	verifrt.Assert(!p, "defaultBackoff does not panic")
	verifrt.Assert(d > 0, "delay is positive")
	verifrt.Assert(d <= 10*time.Second, "delay does not exceed the 10s ceiling")
	var base time.Duration
	switch {
	case n <= 1:
		base = time.Second
	case n == 2:
		base = 2 * time.Second
	case n == 3:
		base = 4 * time.Second
	case n == 4:
		base = 8 * time.Second
	default:
		verifrt.Reach("ceiling")
		verifrt.Assert(d == 10*time.Second, "n >= 5: exactly the ceiling")
		return
	}
	j := d - base
	if c50RandFails {
		verifrt.Reach("rand-fails")
		verifrt.Assert(j == 0, "no jitter when the random source fails")
		return
	}
	verifrt.Reach("jitter")
	verifrt.Assert(j >= time.Millisecond && j <= 1000*time.Millisecond, "jitter within 1..1000 ms")
	verifrt.Assert(j%time.Millisecond == 0, "jitter is a whole number of milliseconds")
}
