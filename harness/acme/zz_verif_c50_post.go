//go:build verif

package acme

import (
	"context"
	"crypto"
	"crypto/ecdsa"
	"crypto/elliptic"
	"crypto/rand"
	"encoding/base64"
	"encoding/json"
	"errors"
	"io"
	"net/http"
	"time"

	"golang.org/x/crypto/internal/verifrt"
)

// ---- scripted ACME server shared by the symbolic run and the native replay ----
//
// Symbolically (*Client).doNoRetry is replaced by c50StubDoNoRetry which hands the request to
// c50Srv.serve; natively the real doNoRetry / net/http client runs with c50Srv as the
// http.RoundTripper, so both modes see the same server. Replies are produced on demand: the
// status code of every reply is a symbolic int in 200..599, presence of a Replay-Nonce header, the
// problem type of an error body and transport failures are forked choices. Server nonces are the
// pairwise distinct strings "n0", "n1", ... (explicit assumption: a server never issues a nonce
// twice).

type c50Body struct {
	problem string
	data    []byte
	read    bool
}

func (b *c50Body) Read(p []byte) (int, error) {
	if !b.read {
		b.read = true
		b.data = []byte(`{"type":"` + b.problem + `","detail":"d"}`)
	}
	if len(b.data) == 0 {
		return 0, io.EOF
	}
	n := copy(p, b.data)
	b.data = b.data[n:]
	return n, nil
}
func (b *c50Body) Close() error { return nil }

type c50Ctx struct {
	done      chan struct{}
	cancelled bool
}

func (c *c50Ctx) Deadline() (time.Time, bool) { return time.Time{}, false }
func (c *c50Ctx) Done() <-chan struct{}       { return c.done }
func (c *c50Ctx) Value(any) any               { return nil }
func (c *c50Ctx) Err() error {
	if c.cancelled {
		return context.Canceled
	}
	return nil
}
func (c *c50Ctx) cancel() {
	if !c.cancelled {
		c.cancelled = true
		close(c.done)
	}
}

var c50ErrTransport = errors.New("verif: transport failure")

type c50Server struct {
	ctx       *c50Ctx
	issued    []string // every nonce handed to the client so far, in order
	used      []bool   // used[i]: issued[i] has been presented in a signed request
	freshFrom int      // nonces issued[i], i < freshFrom, were invalidated by a badNonce reply
	posts     int      // POST replies served
	heads     int      // HEAD replies served
	afterDone int      // request attempts made after the context was cancelled
	final     bool     // a reply that ends the operation has been served
	noTransportErr bool
	allowLost bool // a signed request may be consumed by the server while its reply is lost (context expires)
	lost      int  // number of such requests
	problems  int // 1: malformed/badNonce; 2: also the pre-RFC badNonce URN

	last        *http.Response // last reply served (nil after a transport failure)
	lastWasPost bool
	lastFailed  bool // the last attempt ended in a transport failure
}

var c50Srv *c50Server

var c50Names = []string{"n0", "n1", "n2", "n3", "n4", "n5", "n6", "n7", "n8", "n9", "n10", "n11", "n12", "n13", "n14", "n15"}

// nonce of the signed request being sent (symbolic run: recorded by the jwsEncodeJSON stub)
var c50SignedNonce string

func (s *c50Server) issue() string {
	n := c50Names[len(s.issued)]
	s.issued = append(s.issued, n)
	s.used = append(s.used, false)
	return n
}

// checkNonce is the monitor for "every signed request uses a nonce obtained from the server and
// not used before (and not one invalidated by an earlier badNonce reply)".
func (s *c50Server) checkNonce(nonce string) {
	idx := -1
	for i, v := range s.issued {
		if v == nonce {
			idx = i
		}
	}
	verifrt.Assert(idx >= 0, "signed request carries a nonce issued by the server")
	if idx < 0 {
		return
	}
	verifrt.Assert(!s.used[idx], "nonce has not been used before")
	verifrt.Assert(idx >= s.freshFrom, "nonce was not invalidated by an earlier badNonce reply")
	s.used[idx] = true
}

const (
	c50BadNonce    = "urn:ietf:params:acme:error:badNonce"
	c50BadNonceOld = "urn:acme:error:badNonce"
	c50Malformed   = "urn:ietf:params:acme:error:malformed"
)

func (s *c50Server) serve(method, nonce string) (*http.Response, error) {
	if s.ctx.cancelled {
		s.afterDone++
		return nil, context.Canceled
	}
	verifrt.Assert(!s.final, "no request after a reply that ends the operation")
	res := &http.Response{Header: http.Header{}, Proto: "HTTP/1.1", ProtoMajor: 1, ProtoMinor: 1}
	s.last, s.lastFailed = nil, false
	if method == "HEAD" {
		s.lastWasPost = false
		s.heads++
		switch verifrt.Choose(0, 2) {
		case 0:
			res.StatusCode = 200
			res.Header["Replay-Nonce"] = []string{s.issue()}
		case 1:
			res.StatusCode = 204 // success without a nonce
		default:
			st := verifrt.Int()
			verifrt.Assume(st >= 300 && st <= 599)
			res.StatusCode = st
		}
		res.Body = &c50Body{problem: c50Malformed}
		s.last = res
		return res, nil
	}
	s.lastWasPost = true
	s.checkNonce(nonce)
	if s.allowLost && verifrt.Choose(0, 1) == 1 {
		// The request reached the CA (its nonce is consumed) but the reply never arrives: the
		// caller's context expires while waiting and the transport reports the context error.
		s.lost++
		s.posts++
		s.lastFailed = true
		s.ctx.cancel()
		return nil, context.Canceled
	}
	kind := 1
	if !s.noTransportErr {
		kind = verifrt.Choose(0, 1)
	}
	if kind == 0 {
		s.lastFailed = true
		s.posts++
		return nil, c50ErrTransport
	}
	st := verifrt.Int()
	verifrt.Assume(st >= 200 && st <= 599)
	res.StatusCode = st
	okSt := st == 200
	problem := c50Malformed
	if !okSt {
		switch verifrt.Choose(0, s.problems) {
		case 1:
			problem = c50BadNonce
			// RFC 8555 6.5: badNonce comes with 400; any 4xx (incl. 429) is covered here
			verifrt.Assume(st >= 400 && st <= 499)
		case 2:
			problem = c50BadNonceOld
			verifrt.Assume(st >= 400 && st <= 499)
		}
	}
	res.Body = &c50Body{problem: problem}
	first := len(s.issued)
	if verifrt.Choose(0, 1) == 1 {
		res.Header["Replay-Nonce"] = []string{s.issue()}
	}
	if !okSt && problem != c50Malformed {
		// badNonce: everything issued before this reply is invalid from now on
		s.freshFrom = first
	} else if okSt || (st >= 400 && st <= 499 && st != 429) {
		s.final = true
	}
	s.posts++
	s.last = res
	return res, nil
}

// RoundTrip: native side of the scripted server.
func (s *c50Server) RoundTrip(req *http.Request) (*http.Response, error) {
	nonce := ""
	if req.Method == "POST" {
		b, _ := io.ReadAll(req.Body)
		var jws jsonWebSignature
		var ph struct{ Nonce string }
		json.Unmarshal(b, &jws)
		p, _ := base64.RawURLEncoding.DecodeString(jws.Protected)
		json.Unmarshal(p, &ph)
		nonce = ph.Nonce
	}
	res, err := s.serve(req.Method, nonce)
	if res != nil {
		res.Request = req
	}
	return res, err
}

// Symbolic model of (*Client).doNoRetry: hands the request to the scripted server (the real
// function runs natively with the server as HTTPClient transport). A cancelled context yields
// the context's error, as in the real function.
//
//verif:stub (*golang.org/x/crypto/acme.Client).doNoRetry
func c50StubDoNoRetry(c *Client, ctx context.Context, req *http.Request) (*http.Response, error) {
	res, err := c50Srv.serve(req.Method, c50SignedNonce)
	if err != nil {
		select {
		case <-ctx.Done():
			return nil, ctx.Err()
		default:
			return nil, err
		}
	}
	return res, nil
}

// Symbolic model of jwsEncodeJSON for the nonce protocol: records the nonce placed into the
// protected header (C49 decides the real encoder).
//
//verif:stub golang.org/x/crypto/acme.jwsEncodeJSON
func c50StubJWS(claimset interface{}, key crypto.Signer, kid KeyID, nonce, url string) ([]byte, error) {
	if c50Srv == nil {
		return jwsEncodeJSON(claimset, key, kid, nonce, url) // other properties' harnesses: real code
	}
	c50SignedNonce = nonce
	return []byte("jws"), nil
}

// Symbolic model of responseError on the harness' replies: the body is the problem document
// {"type": T, "detail": "d"}, for which the real function yields Error{StatusCode: HTTP status,
// ProblemType: T, Detail: "d", Header: response header} (encoding/json does not run in the engine).
//
//verif:stub golang.org/x/crypto/acme.responseError
func c50StubResponseError(resp *http.Response) error {
	b := resp.Body.(*c50Body)
	return &Error{StatusCode: resp.StatusCode, ProblemType: b.problem, Detail: "d", Header: resp.Header}
}

// Timers: the wait itself is not modelled; a timer has always fired when it is waited for, unless
// the context was cancelled first (the harness' RetryBackoff hook cancels at the chosen retry).
//
//verif:stub time.NewTimer
func c50StubNewTimer(d time.Duration) *time.Timer {
	ch := make(chan time.Time, 1)
	ch <- time.Time{}
	return &time.Timer{C: ch}
}

//verif:stub (*time.Timer).Stop
func c50StubTimerStop(t *time.Timer) bool { return false }

type c50DummyKey struct{}

func (c50DummyKey) Public() crypto.PublicKey { return nil }
func (c50DummyKey) Sign(io.Reader, []byte, crypto.SignerOpts) ([]byte, error) {
	return nil, errors.New("not used")
}

var c50NativeKey crypto.Signer

// c50Post drives the real Client.post (retry loop), postNoRetry, popNonce, addNonce,
// clearNonces, fetchNonce, retryTimer.backoff, isBadNonce, isRetriable against the scripted
// server. maxRetry bounds the retries through the Client.RetryBackoff hook (documented way to
// limit retries: a non-positive delay ends them), so at most maxRetry+1 POSTs and 2*(maxRetry+1)
// HEADs occur. Initial state: pool of 0..2 previously issued unused nonces; directory known
// (NonceURL) or unknown (fallback to directory URL, then the request URL). The context is
// cancelled never, before the first request, or during the wait of retry number cancelAt.
type c50Cfg struct {
	maxRetry       int  // retries allowed by RetryBackoff
	dirLo, dirHi   int  // 0: directory unknown, 1: Directory.NonceURL known
	poolLo, poolHi int  // initial pool size
	cancelLo       int  // -1: also "never cancelled"; cancelAt ranges over cancelLo..maxRetry
	cancelHi       int
	transportErrs  bool // POSTs may fail in the transport
	problems       int  // see c50Server.problems
}

func c50Post(cfg c50Cfg) {
	maxRetry := cfg.maxRetry
	srv := &c50Server{ctx: &c50Ctx{done: make(chan struct{})}, noTransportErr: !cfg.transportErrs, problems: cfg.problems}
	c50Srv = srv
	c := &Client{DirectoryURL: "https://ca.example/dir", KID: "https://ca.example/acct/1"}
	if verifrt.Symbolic() {
		c.Key = c50DummyKey{}
	} else {
		if c50NativeKey == nil {
			c50NativeKey, _ = ecdsa.GenerateKey(elliptic.P256(), rand.Reader)
		}
		c.Key = c50NativeKey
		c.HTTPClient = &http.Client{Transport: srv}
	}
	if verifrt.Choose(cfg.dirLo, cfg.dirHi) == 1 {
		c.dir = &Directory{NonceURL: "https://ca.example/nonce"}
	}
	pool := verifrt.Choose(cfg.poolLo, cfg.poolHi)
	for i := 0; i < pool; i++ {
		c.addNonce(http.Header{"Replay-Nonce": []string{srv.issue()}})
	}
	cancelAt := verifrt.Choose(cfg.cancelLo, cfg.cancelHi)
	if cancelAt == 0 {
		srv.ctx.cancel()
	}
	var retries []int
	c.RetryBackoff = func(n int, r *http.Request, res *http.Response) time.Duration {
		retries = append(retries, n)
		if n > maxRetry {
			return 0
		}
		if n == cancelAt {
			srv.ctx.cancel()
			return time.Hour
		}
		return time.Microsecond
	}

	res, err := c.post(srv.ctx, nil, "https://ca.example/order", noPayload, wantStatus(http.StatusOK))

	for i, n := range retries {
		verifrt.Assert(n == i+1, "retry numbers passed to RetryBackoff are 1, 2, 3, ...")
	}
	verifrt.Assert(len(retries) <= maxRetry+1, "retries end when RetryBackoff returns a non-positive delay")
	verifrt.Assert(srv.posts <= maxRetry+1, "number of signed requests bounded by the retry limit")
	verifrt.Assert(len(c.nonces) <= maxNonces, "nonce pool bounded")
	for k := range c.nonces {
		idx := -1
		for i, v := range srv.issued {
			if v == k {
				idx = i
			}
		}
		verifrt.Assert(idx >= 0 && !srv.used[idx], "pool holds only unused server nonces")
	}
	if srv.ctx.cancelled && cancelAt > 0 {
		verifrt.Assert(srv.afterDone == 0, "no request attempted after cancellation during a retry wait")
	}
	verifrt.Assert(srv.afterDone <= 2, "at most one request attempt (two nonce fetches) after cancellation")

	if err == nil {
		verifrt.Reach("ok")
		verifrt.Assert(res != nil && res == srv.last && srv.lastWasPost, "result is the last reply of the server")
		verifrt.Assert(res.StatusCode == 200, "returned reply has an accepted status")
		verifrt.Assert(srv.afterDone == 0, "success only if no request was attempted after cancellation")
		return
	}
	verifrt.Assert(res == nil, "error => nil response")
	ae, isAcme := err.(*Error)
	switch {
	case srv.afterDone > 0:
		verifrt.Reach("cancelled-before-request")
		verifrt.Assert(err == context.Canceled, "request attempted with a cancelled context fails with the context error")
	case srv.lastFailed:
		verifrt.Reach("transport-error")
		verifrt.Assert(err == c50ErrTransport, "transport failure returned as is")
	case isAcme:
		verifrt.Assert(srv.last != nil && ae.StatusCode == srv.last.StatusCode, "error carries the status of the last reply")
		if srv.lastWasPost {
			st := srv.last.StatusCode
			verifrt.Assert(st != 200, "error only for a non-accepted status")
			bad := isBadNonce(err)
			if srv.ctx.cancelled {
				verifrt.Reach("cancelled-in-backoff")
			} else if bad || st <= 399 || st >= 500 || st == 429 {
				verifrt.Reach("retries-exhausted")
				verifrt.Assert(len(retries) == maxRetry+1, "a retriable reply is final only when retries are exhausted")
			} else {
				verifrt.Reach("non-retriable")
			}
		} else {
			verifrt.Reach("nonce-fetch-error")
			verifrt.Assert(srv.last.StatusCode > 299, "nonce fetch error reply")
		}
	default:
		verifrt.Reach("nonce-missing")
		verifrt.Assert(srv.last != nil && !srv.lastWasPost && srv.last.StatusCode <= 299 && len(srv.last.Header["Replay-Nonce"]) == 0,
			"other errors only for a nonce fetch reply without nonce")
	}
}

// Verif_C50_Post1: at most 1 retry (2 signed requests); directory known or unknown; pool 0..2;
// never cancelled / cancelled before the first request / during the retry wait; no transport
// failures; problem types malformed and RFC badNonce.
func Verif_C50_Post1() {
	c50Post(c50Cfg{maxRetry: 1, dirLo: 0, dirHi: 1, poolLo: 0, poolHi: 2, cancelLo: -1, cancelHi: 1, problems: 1})
}

// Verif_C50_Post2: at most 2 retries (3 signed requests), directory known, pool 0..2, never
// cancelled or cancelled during the second retry wait; transport failures; also the pre-RFC
// badNonce URN.
func Verif_C50_Post2() {
	c50Post(c50Cfg{maxRetry: 2, dirLo: 1, dirHi: 1, poolLo: 0, poolHi: 2, cancelLo: -1, cancelHi: 2, transportErrs: true, problems: 2})
}
