//go:build verif

package acme

import (
	"context"
	"crypto/ecdsa"
	"crypto/elliptic"
	"crypto/rand"
	"net/http"
	"time"

	"golang.org/x/crypto/internal/verifrt"
)

// c50CheckPool: every nonce in the client's pool was issued by the server and has not been
// presented in a signed request yet.
func c50CheckPool(c *Client, srv *c50Server) {
	verifrt.Assert(len(c.nonces) <= maxNonces, "nonce pool bounded")
	for k := range c.nonces {
		idx := -1
		for i, v := range srv.issued {
			if v == k {
				idx = i
			}
		}
		verifrt.Assert(idx >= 0 && !srv.used[idx], "pool holds only unused server nonces")
	}
}

// Verif_C50_PostLost: two consecutive operations on one Client. In the first Client.post (no
// retries, pool of 0..2 nonces, directory known) the signed request may reach the server - which
// consumes its nonce - while the reply is lost: the caller's context expires and the transport
// returns the context error ("request timed out after reaching the CA"). Then a second Client.post
// with a fresh context (no retries, every reply shape of the script) runs on the same Client. The
// server-side monitor (nonce issued by the server / never presented before / not invalidated)
// covers both operations, and after each one the pool must hold only unused server nonces: a nonce
// that went out in a signed request is burnt whatever happened to the reply.
func Verif_C50_PostLost() {
	srv := &c50Server{ctx: &c50Ctx{done: make(chan struct{})}, noTransportErr: true, problems: 1, allowLost: true}
	c50Srv = srv
	c := &Client{DirectoryURL: "https://ca.example/dir", KID: "https://ca.example/acct/1",
		dir: &Directory{NonceURL: "https://ca.example/nonce"}}
	if verifrt.Symbolic() {
		c.Key = c50DummyKey{}
	} else {
		if c50NativeKey == nil {
			c50NativeKey, _ = ecdsa.GenerateKey(elliptic.P256(), rand.Reader)
		}
		c.Key = c50NativeKey
		c.HTTPClient = &http.Client{Transport: srv}
	}
	pool := verifrt.Choose(0, 2)
	for i := 0; i < pool; i++ {
		c.addNonce(http.Header{"Replay-Nonce": []string{srv.issue()}})
	}
	c.RetryBackoff = func(n int, r *http.Request, res *http.Response) time.Duration { return 0 } // no retries

	res, err := c.post(srv.ctx, nil, "https://ca.example/order", noPayload, wantStatus(http.StatusOK))
	c50CheckPool(c, srv)
	if srv.lost == 0 {
		verifrt.Reach("first-answered")
		return
	}
	verifrt.Reach("first-lost")
	verifrt.Assert(res == nil && err == context.Canceled, "lost reply: the context error is returned")
	verifrt.Assert(srv.posts == 1, "lost reply: no further signed request in the first operation")

	// second operation on the same client, fresh context
	srv.ctx = &c50Ctx{done: make(chan struct{})}
	srv.final, srv.allowLost = false, false
	res, err = c.post(srv.ctx, nil, "https://ca.example/order2", noPayload, wantStatus(http.StatusOK))
	verifrt.Assert((res == nil) != (err == nil), "exactly one of response and error")
	c50CheckPool(c, srv)
	if srv.posts == 2 {
		verifrt.Reach("second-signed")
	}
}
