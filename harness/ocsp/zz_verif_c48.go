//go:build verif

package ocsp

import (
	"strconv"

	"golang.org/x/crypto/internal/verifrt"
)

// strconv.Itoa on a symbolic int forks per value; only the "unknown OCSP status: " prefix is
// asserted, so the engine sees a constant suffix.
//
//verif:stub strconv.Itoa
func c48Itoa(i int) string {
	if !verifrt.Symbolic() {
		return strconv.Itoa(i)
	}
	return "N"
}

// Verif_C48_Status: ResponseStatus.String and ResponseError.Error are total over ALL int
// values: the six RFC 6960 codes (0,1,2,3,5,6) map to their names, every other value (including
// the unused code 4 and negative values) to "unknown OCSP status: ...", no panic.
func Verif_C48_Status() {
	v := verifrt.Int()
	r := ResponseStatus(v)
	var s, e string
	panicked := verifrt.Panics(func() {
		s = r.String()
		e = ResponseError{r}.Error()
	})
	verifrt.Assert(!panicked, "String/Error do not panic")
	verifrt.Assert(e == "ocsp: error from server: "+s, "ResponseError.Error wraps the status text")
	switch v {
	case 0:
		verifrt.Assert(s == "success", "0 success")
	case 1:
		verifrt.Assert(s == "malformed", "1 malformed")
	case 2:
		verifrt.Assert(s == "internal error", "2 internal error")
	case 3:
		verifrt.Assert(s == "try later", "3 try later")
	case 5:
		verifrt.Assert(s == "signature required", "5 signature required")
	case 6:
		verifrt.Assert(s == "unauthorized", "6 unauthorized")
	default:
		verifrt.Assert(len(s) > 21 && s[:21] == "unknown OCSP status: ", "other values: unknown OCSP status")
		verifrt.Reach("unknown")
	}
}

// Verif_C48_ErrorResponse: the five-byte OCSP error response 30 03 0A 01 ss with a symbolic
// status byte ss in 1..127 through the real ParseResponse (encoding/asn1 executed as code, if
// the engine's reflect model carries it): the result is (nil, ResponseError{ss}); no panic.
func Verif_C48_ErrorResponse() {
	ss := verifrt.U8()
	verifrt.Assume(ss >= 1)
	verifrt.Assume(ss < 128)
	in := []byte{0x30, 0x03, 0x0A, 0x01, ss}
	var resp *Response
	var err error
	panicked := verifrt.Panics(func() { resp, err = ParseResponse(in, nil) })
	verifrt.Assert(!panicked, "ParseResponse does not panic")
	verifrt.Assert(resp == nil && err != nil, "error response => no Response")
	re, ok := err.(ResponseError)
	verifrt.Assert(ok && int(re.Status) == int(ss), "error response => ResponseError with the status byte")
	verifrt.Reach("response-error")
}
