//go:build verif

package ocsp

import (
	"crypto"
	"crypto/ecdsa"
	"crypto/elliptic"
	"crypto/rand"
	"crypto/x509"
	"crypto/x509/pkix"
	"encoding/asn1"
	"errors"
	"math/big"
	"strings"
	"time"

	"golang.org/x/crypto/internal/verifrt"
)

// Scenario handed to the stubs below (engine only). Natively the same scenario is realised
// with real ECDSA keys, certificates and a response built by CreateResponse, so that a
// counterexample of the engine replays through the real ParseResponseForCert.
var (
	c48Havoc      bool
	c48Resp       responseASN1
	c48Basic      basicResponse
	c48Issuer     *x509.Certificate
	c48Emb        *x509.Certificate
	c48VRespIss   bool // response signature verifies under the issuer's key
	c48VRespEmb   bool // response signature verifies under the embedded certificate's key
	c48VEmbIssuer bool // embedded certificate's signature verifies under the issuer's key
)

// encoding/asn1.Unmarshal hands over the harness-built structures (DER decoding itself is
// outside this harness; it is reflection-driven std code).
//
//verif:stub encoding/asn1.Unmarshal
func c48Unmarshal(b []byte, val any) ([]byte, error) {
	if !verifrt.Symbolic() || !c48Havoc {
		return asn1.Unmarshal(b, val)
	}
	switch v := val.(type) {
	case *responseASN1:
		*v = c48Resp
	case *basicResponse:
		*v = c48Basic
	case *pkix.RDNSequence:
	case *[]byte:
		*v = []byte{1}
	default:
		return nil, errors.New("c48: unexpected Unmarshal target")
	}
	return nil, nil
}

//verif:stub crypto/x509.ParseCertificate
func c48ParseCertificate(der []byte) (*x509.Certificate, error) {
	if !verifrt.Symbolic() || !c48Havoc {
		return x509.ParseCertificate(der)
	}
	return c48Emb, nil
}

// (*x509.Certificate).CheckSignature as a verdict per (signer, signee): the signer is the
// receiver (issuer or embedded certificate), the signee is recognised by the signed bytes
// (response TBS "T..." or embedded certificate TBS "E...").
//
//verif:stub (*crypto/x509.Certificate).CheckSignature
func c48CheckSignature(c *x509.Certificate, algo x509.SignatureAlgorithm, signed, signature []byte) error {
	if !verifrt.Symbolic() || !c48Havoc {
		return c.CheckSignature(algo, signed, signature)
	}
	ok := false
	switch {
	case c == c48Issuer && len(signed) > 0 && signed[0] == 'T':
		ok = c48VRespIss
	case c == c48Emb && len(signed) > 0 && signed[0] == 'T':
		ok = c48VRespEmb
	case c == c48Issuer && len(signed) > 0 && signed[0] == 'E':
		ok = c48VEmbIssuer
	default:
		verifrt.Assert(false, "unexpected (signer, signee) pair in CheckSignature")
	}
	if !ok {
		return errors.New("c48: signature does not verify")
	}
	return nil
}

func c48Key() *ecdsa.PrivateKey {
	k, err := ecdsa.GenerateKey(elliptic.P256(), rand.Reader)
	if err != nil {
		panic(err)
	}
	return k
}

func c48Cert(cn string, serial int64, ca bool, pub *ecdsa.PublicKey, parent *x509.Certificate, signer *ecdsa.PrivateKey) *x509.Certificate {
	tmpl := &x509.Certificate{
		SerialNumber:          big.NewInt(serial),
		Subject:               pkix.Name{CommonName: cn},
		NotBefore:             time.Unix(1700000000, 0),
		NotAfter:              time.Unix(1900000000, 0),
		IsCA:                  ca,
		BasicConstraintsValid: true,
		KeyUsage:              x509.KeyUsageDigitalSignature | x509.KeyUsageCertSign,
	}
	if parent == nil {
		parent = tmpl
	}
	der, err := x509.CreateCertificate(rand.Reader, tmpl, parent, pub, signer)
	if err != nil {
		panic(err)
	}
	c, err := x509.ParseCertificate(der)
	if err != nil {
		panic(err)
	}
	return c
}

// Verif_C48_Accept: the acceptance decision of ParseResponseForCert with an issuer given, over
// the scenario space {embedded certificate present or not, embedded certificate's subject equal
// to the issuer's or not} x {response signature verifies under the issuer's key, under the
// embedded certificate's key, embedded certificate verifies under the issuer's key} (three
// symbolic verdicts). Otherwise the response is well-formed (status success, basic response type,
// one Good single response, SHA-1 CertID, responder id by name, no extensions).
// Obligation: accepted <=> (no embedded certificate AND response signed by the issuer) OR
// (embedded certificate AND response signed by it AND it is signed by the issuer).
// Engine: asn1.Unmarshal / x509.ParseCertificate hand over harness-built structures and
// CheckSignature returns the verdicts. Native replay: real ECDSA P-256 keys, certificates and a
// response produced by CreateResponse realise the same scenario through the unmodified API.
func Verif_C48_Accept() {
	embedded := verifrt.Choose(0, 1) == 1
	sameSubject := verifrt.Choose(0, 1) == 1
	vRespIss := verifrt.Bool()
	vRespEmb := verifrt.Bool()
	vEmbIssuer := verifrt.Bool()

	var resp *Response
	var err error
	if verifrt.Symbolic() {
		c48Havoc = true
		c48VRespIss, c48VRespEmb, c48VEmbIssuer = vRespIss, vRespEmb, vEmbIssuer
		c48Issuer = &x509.Certificate{RawSubject: []byte("issuer")}
		sub := "responder"
		if sameSubject {
			sub = "issuer"
		}
		c48Emb = &x509.Certificate{RawSubject: []byte(sub), RawTBSCertificate: []byte("Etbs"), Signature: []byte{1},
			SignatureAlgorithm: x509.ECDSAWithSHA256}
		single := singleResponse{
			CertID: certID{HashAlgorithm: pkix.AlgorithmIdentifier{Algorithm: hashOIDs[crypto.SHA1]}, SerialNumber: big.NewInt(7)},
			Good:   true,
		}
		c48Basic = basicResponse{
			TBSResponseData: responseData{
				Raw:            []byte("Ttbs"),
				RawResponderID: asn1.RawValue{Class: 2, Tag: 1, IsCompound: true, Bytes: []byte("name")},
				Responses:      []singleResponse{single},
			},
			SignatureAlgorithm: pkix.AlgorithmIdentifier{Algorithm: oidSignatureECDSAWithSHA256},
			Signature:          asn1.BitString{Bytes: []byte{1}, BitLength: 8},
		}
		if embedded {
			c48Basic.Certificates = []asn1.RawValue{{FullBytes: []byte("cert")}}
		}
		c48Resp = responseASN1{Status: asn1.Enumerated(Success),
			Response: responseBytes{ResponseType: idPKIXOCSPBasic, Response: []byte("basic")}}
		resp, err = ParseResponseForCert([]byte("der"), nil, c48Issuer)
		c48Havoc = false
	} else {
		issuerKey, embKey, rogueKey := c48Key(), c48Key(), c48Key()
		issuer := c48Cert("issuer", 1, true, &issuerKey.PublicKey, nil, issuerKey)
		rogueCA := c48Cert("issuer", 2, true, &rogueKey.PublicKey, nil, rogueKey)
		tmpl := Response{Status: Good, SerialNumber: big.NewInt(7),
			ThisUpdate: time.Unix(1700000000, 0), NextUpdate: time.Unix(1700003600, 0)}
		var signer *ecdsa.PrivateKey
		if embedded {
			cn := "responder"
			if sameSubject {
				cn = "issuer"
			}
			parent, pkey := rogueCA, rogueKey
			if vEmbIssuer {
				parent, pkey = issuer, issuerKey
			}
			tmpl.Certificate = c48Cert(cn, 3, false, &embKey.PublicKey, parent, pkey)
			signer = rogueKey
			if vRespEmb {
				signer = embKey
			}
		} else {
			signer = rogueKey
			if vRespIss {
				signer = issuerKey
			}
		}
		der, cerr := CreateResponse(issuer, issuer, tmpl, signer)
		if cerr != nil {
			panic(cerr)
		}
		resp, err = ParseResponseForCert(der, nil, issuer)
	}

	want := (!embedded && vRespIss) || (embedded && vRespEmb && vEmbIssuer)
	if err == nil {
		verifrt.Assert(want, "accepted => signed by the issuer, or by an embedded certificate that the issuer signed")
		verifrt.Assert(resp != nil && resp.Status == Good, "accepted response carries the status")
		verifrt.Reach("accepted")
	} else {
		verifrt.Assert(!want, "a correctly signed well-formed response is accepted")
		verifrt.Reach("rejected")
	}
}

// c48HashFromName derives the expected digest from the algorithm's printed name
// (x509.SignatureAlgorithm.String: "SHA256-RSA", "ECDSA-SHA384", "DSA-SHA1", "MD5-RSA"; MD2WithRSA has no name),
// independently of ocsp's table.
func c48HashFromName(name string) (crypto.Hash, bool) {
	switch {
	case strings.Contains(name, "SHA256"):
		return crypto.SHA256, true
	case strings.Contains(name, "SHA384"):
		return crypto.SHA384, true
	case strings.Contains(name, "SHA512"):
		return crypto.SHA512, true
	case strings.Contains(name, "SHA1"):
		return crypto.SHA1, true
	case strings.Contains(name, "MD5"):
		return crypto.MD5, true
	}
	return 0, false
}

// Verif_C48_SigAlgTable: every row of signatureAlgorithmDetails (row index forked): the digest
// is the one in the algorithm's name, the public-key algorithm is the one in the name, the OID
// maps back to the row's algorithm (getSignatureAlgorithmFromOID), and rows do not repeat an
// algorithm.
func Verif_C48_SigAlgTable() {
	i := verifrt.Choose(0, len(signatureAlgorithmDetails)-1)
	row := signatureAlgorithmDetails[i]
	name := row.algo.String()
	h, ok := c48HashFromName(name)
	if !ok {
		// x509 has no name (and no implementation) for MD2WithRSA only: String() is numeric
		verifrt.Assert(row.algo == x509.MD2WithRSA && row.hash == 0 && row.pubKeyAlgo == x509.RSA, "only MD2WithRSA is unnamed; it has no digest")
		verifrt.Reach("row")
		return
	}
	verifrt.Assert(row.hash == h, "table digest == digest in the algorithm's name")
	var pk x509.PublicKeyAlgorithm
	switch {
	case strings.Contains(name, "ECDSA"):
		pk = x509.ECDSA
	case strings.Contains(name, "DSA"):
		pk = x509.DSA
	case strings.Contains(name, "RSA"):
		pk = x509.RSA
	}
	verifrt.Assert(row.pubKeyAlgo == pk, "table public-key algorithm == the one in the name")
	verifrt.Assert(getSignatureAlgorithmFromOID(row.oid) == row.algo, "OID maps back to the algorithm")
	for j := range signatureAlgorithmDetails {
		if j != i {
			verifrt.Assert(signatureAlgorithmDetails[j].algo != row.algo, "no duplicate algorithm rows")
		}
	}
	verifrt.Reach("row")
}
