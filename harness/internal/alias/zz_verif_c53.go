//go:build verif

package alias

import (
	"golang.org/x/crypto/internal/verifrt"
)

// The engine executes the real AnyOverlap / InexactOverlap on its memory model: every object
// has a base address (object id << 40 + 0x1000), &x[i] is base + offset, so pointer ->
// uintptr conversions (unsafe variant) and reflect.ValueOf(p).Pointer() (purego variant) are
// concrete once offsets and lengths are concrete. Offsets and lengths are therefore forked
// exhaustively (Choose) inside the stated bound; the byte contents are irrelevant to these
// functions. Registered twice: default tags (alias_purego.go) and -tags without purego
// (alias.go, unsafe.Pointer).

func c53Check(x, y []byte, inter, sameStart bool) {
	verifrt.Assert(AnyOverlap(x, y) == inter, "AnyOverlap = ranges intersect")
	verifrt.Assert(AnyOverlap(y, x) == inter, "AnyOverlap symmetric")
	verifrt.Assert(InexactOverlap(x, y) == (inter && !sameStart), "InexactOverlap = intersect and different start")
	verifrt.Assert(InexactOverlap(y, x) == (inter && !sameStart), "InexactOverlap symmetric")
}

// c53Windows: two windows x = a[ox:ox+lx], y = a[oy:oy+ly] into ONE backing array of n bytes, for
// every (ox, lx, oy, ly) with ox+lx <= n, oy+ly <= n. AnyOverlap / InexactOverlap must equal
// the set-theoretic definitions: the byte ranges intersect; and intersect with different
// start addresses. Empty slices never overlap anything.
func c53Windows(n int) {
	a := verifrt.Bytes(n)
	ox := verifrt.Choose(0, n)
	lx := verifrt.Choose(0, n-ox)
	oy := verifrt.Choose(0, n)
	ly := verifrt.Choose(0, n-oy)
	x := a[ox : ox+lx]
	y := a[oy : oy+ly]
	inter := lx > 0 && ly > 0 && ox < oy+ly && oy < ox+lx
	c53Check(x, y, inter, ox == oy)
	if inter {
		verifrt.Reach("overlap")
	} else {
		verifrt.Reach("disjoint")
	}
}

// Verif_C53_AliasWindows: all windows into one 6-byte array (every offset/length combination,
// 784 cases), contents symbolic.
func Verif_C53_AliasWindows() { c53Windows(6) }

// Verif_C53_AliasWindowsT (thorough): all windows into one 10-byte array (4356 cases).
func Verif_C53_AliasWindowsT() { c53Windows(10) }

type c53Struct struct {
	pre [3]byte
	a   [8]byte
	b   [8]byte
}

// Verif_C53_AliasObjects: slices of DISTINCT allocations never overlap (two makes; an array
// and a make; a nil and an empty slice), and two adjacent array fields of one struct overlap
// iff their windows do when laid out consecutively (field b starts 8 bytes after field a);
// all offsets/lengths with offset+length <= 4 (quick) / <= 8 (thorough, AliasObjectsT).
func Verif_C53_AliasObjects() { c53Objects(4) }

func Verif_C53_AliasObjectsT() { c53Objects(8) }

func c53Objects(m int) {
	ox := verifrt.Choose(0, m)
	lx := verifrt.Choose(0, m-ox)
	oy := verifrt.Choose(0, m)
	ly := verifrt.Choose(0, m-oy)
	p := make([]byte, 8)
	q := make([]byte, 8)
	var arr [8]byte
	c53Check(p[ox:ox+lx], q[oy:oy+ly], false, false)
	c53Check(arr[ox:ox+lx], q[oy:oy+ly], false, false)
	c53Check(nil, q[oy:oy+ly], false, false)
	c53Check(p[ox:ox], p[ox:ox+lx], false, true)
	s := new(c53Struct)
	// same field
	inter := lx > 0 && ly > 0 && ox < oy+ly && oy < ox+lx
	c53Check(s.a[ox:ox+lx], s.a[oy:oy+ly], inter, ox == oy)
	// different fields of one object: disjoint ranges by construction
	c53Check(s.a[ox:ox+lx], s.b[oy:oy+ly], false, false)
	// a slice extended over its capacity window: a[ox:ox+lx] resliced to the end of the array
	full := s.a[ox : ox+lx : 8]
	ext := full[:8-ox]
	c53Check(ext, s.a[oy:oy+ly], ly > 0 && 8-ox > 0 && oy+ly > ox, ox == oy)
	verifrt.Reach("done")
}
