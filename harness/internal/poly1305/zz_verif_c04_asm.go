//go:build verif && gc && !purego && amd64

package poly1305

import (
	"encoding/binary"

	"golang.org/x/crypto/internal/verifrt"
)

// C04, assembly update path. These harnesses are run with the engine loading the amd64 build
// (tags verif,math_big_pure_go): the call to update is executed by the engine's scalar amd64
// interpreter over internal/poly1305/sum_amd64.s (engine/exec/asm_amd64.go), natively by the real
// assembly.

func init() { c04CallUpdate = update }

// c04AsmBlock: the assembly routine update on ONE block of n bytes (16: full block; 1..15: final
// partial block, padded with 0x01), for ALL block bytes, ALL clamped r and ALL accumulators with
// h2 <= 4: the new accumulator equals the limb-level reference c04RefBlock (the same reference
// updateGeneric is proved equal to), r and s are untouched.
func c04AsmBlock(n int) {
	c04AsmReal = true
	c04MulMode = 0
	h, r := c04SymHR()
	blk := verifrt.Bytes(n)
	st := macState{h: h, r: r, s: [2]uint64{verifrt.U64(), verifrt.U64()}}
	s0 := st.s
	update(&st, blk)
	var b [TagSize + 1]byte
	copy(b[:], blk)
	b[n] = 1
	vlo, vhi, vtop := binary.LittleEndian.Uint64(b[0:8]), binary.LittleEndian.Uint64(b[8:16]), uint64(b[16])
	want := c04RefBlock(h, r, vlo, vhi, vtop)
	verifrt.Assert(st.h == want, "assembly block step = PR((h + block + 2^(8 len)) * r)")
	verifrt.Assert(st.r == r && st.s == s0, "assembly leaves r and s unchanged")
	verifrt.Reach("asm-block-ok")
}

// c04AsmVsGeneric: the assembly routine and updateGeneric on the same block of n bytes, for ALL
// block bytes, clamped r and accumulators with h2 <= 4, under the multiplication abstraction of
// c04MulMode 2 applied to BOTH sides (low word exact, high word the same uninterpreted function
// with the bounds Verif_C04_MulLemma proves for the real multiplication): whenever updateGeneric
// does not hit its overflow panic (Verif_C04_Block* show it never does), the two leave the same
// accumulator. Together with Verif_C04_Block* (updateGeneric = reference) this decides the
// assembly block step without a 128-bit multiplier in the query.
func c04AsmVsGeneric(n int) {
	c04AsmReal = true
	c04Abstract = false
	c04MulMode = 3
	verifrt.AsmMulHiUF("p1305mulhi")
	h, r := c04SymHR()
	blk := verifrt.Bytes(n)
	sa := macState{h: h, r: r}
	update(&sa, blk)
	sg := macState{h: h, r: r}
	panicked := verifrt.Panics(func() { updateGeneric(&sg, blk) })
	verifrt.Assume(!panicked)
	verifrt.Assert(sa.h[0] == sg.h[0], "assembly block step = updateGeneric block step (limb 0)")
	verifrt.Assert(sa.h[1] == sg.h[1], "assembly block step = updateGeneric block step (limb 1)")
	verifrt.Assert(sa.h[2] == sg.h[2], "assembly block step = updateGeneric block step (limb 2)")
	verifrt.Assert(sa.r == r, "assembly leaves r unchanged")
	verifrt.Reach("asm-eq-generic")
}

// Verif_C04_AsmEqFull / AsmEqPartialQ / AsmEqPartial0..2: full block; final partial block of
// 1, 8, 15 bytes (quick) or every length 1..15 (thorough).
func Verif_C04_AsmEqFull()     { c04AsmVsGeneric(TagSize) }
func Verif_C04_AsmEqPartialQ() { c04AsmVsGeneric([]int{1, 8, 15}[verifrt.Choose(0, 2)]) }
func Verif_C04_AsmEqPartial0() { c04AsmVsGeneric(verifrt.Choose(1, 5)) }
func Verif_C04_AsmEqPartial1() { c04AsmVsGeneric(verifrt.Choose(6, 10)) }
func Verif_C04_AsmEqPartial2() { c04AsmVsGeneric(verifrt.Choose(11, 15)) }

// c04AsmFixedR: the assembly routine against updateGeneric with the REAL multiplication on both
// sides, for ALL accumulators (h2 <= 4) and ALL block bytes but a FIXED key limb pair r taken
// from a small set of clamped values (multiplications by constants): decides the block
// addition, the 0x01 padding of a final partial block, every carry between limbs and the
// reduction for those r. (The general-r equivalence was attempted with exact and with abstracted
// multiplication and is `unknown` for all back ends within 120 s; it is not registered.)
func c04AsmFixedR(n int) {
	c04AsmReal = true
	c04Abstract = false
	c04MulMode = 0
	// (1,4) and the maximal clamped values were tried too: limb 1 stays `unknown` within 60 s
	rs := [][2]uint64{{1, 0}, {0, 4}}
	r := rs[verifrt.Choose(0, len(rs)-1)]
	h := [3]uint64{verifrt.U64(), verifrt.U64(), uint64(verifrt.U8() & 7)}
	verifrt.Assume(h[2] <= 4)
	blk := verifrt.Bytes(n)
	sa := macState{h: h, r: r}
	update(&sa, blk)
	sg := macState{h: h, r: r}
	panicked := verifrt.Panics(func() { updateGeneric(&sg, blk) })
	verifrt.Assert(!panicked, "updateGeneric does not panic")
	verifrt.Assert(sa.h[0] == sg.h[0], "assembly = updateGeneric for fixed r (limb 0)")
	verifrt.Assert(sa.h[1] == sg.h[1], "assembly = updateGeneric for fixed r (limb 1)")
	verifrt.Assert(sa.h[2] == sg.h[2], "assembly = updateGeneric for fixed r (limb 2)")
	verifrt.Reach("asm-fixed-r")
}

func Verif_C04_AsmFixedRFull()     { c04AsmFixedR(TagSize) }
func Verif_C04_AsmFixedRPartialQ() { c04AsmFixedR([]int{1, 8, 15}[verifrt.Choose(0, 2)]) }
func Verif_C04_AsmFixedRPartialT() { c04AsmFixedR(verifrt.Choose(1, 15)) }

// Verif_C04_AsmBlockFull: one full 16-byte block through the assembly.
func Verif_C04_AsmBlockFull() { c04AsmBlock(TagSize) }

// Verif_C04_AsmBlockPartialQ / Partial0..2: a final partial block of 1, 8, 15 bytes (quick) or
// every length 1..15 (thorough), through the assembly's flush_buffer path.
func Verif_C04_AsmBlockPartialQ() { c04AsmBlock([]int{1, 8, 15}[verifrt.Choose(0, 2)]) }
func Verif_C04_AsmBlockPartial0() { c04AsmBlock(verifrt.Choose(1, 5)) }
func Verif_C04_AsmBlockPartial1() { c04AsmBlock(verifrt.Choose(6, 10)) }
func Verif_C04_AsmBlockPartial2() { c04AsmBlock(verifrt.Choose(11, 15)) }

// Verif_C04_AsmLoop: the assembly on 0..3 full blocks followed by a tail of 0, 1 or 15 bytes
// equals the fold of single-block assembly steps (the loop and pointer bookkeeping of the
// routine: block boundaries, the tail taken from the right offset, the state written back once).
func Verif_C04_AsmLoop() {
	c04AsmReal = true
	c04MulMode = 0
	h, r := c04SymHR()
	nb := verifrt.Choose(0, 3)
	tail := []int{0, 1, 15}[verifrt.Choose(0, 2)]
	msg := verifrt.Bytes(16*nb + tail)
	whole := macState{h: h, r: r}
	update(&whole, msg)
	step := macState{h: h, r: r}
	for i := 0; i < nb; i++ {
		update(&step, msg[16*i:16*i+16])
	}
	if tail > 0 {
		update(&step, msg[16*nb:])
	}
	verifrt.Assert(whole.h == step.h, "assembly over a message = fold of its single-block steps")
	verifrt.Reach("asm-loop-ok")
}
