//go:build verif

package poly1305

import (
	"encoding/binary"
	"math/bits"

	"golang.org/x/crypto/internal/verifrt"
)

// =====================================================================================
// C04: Poly1305 tags equal the mathematical definition.
//
// The proof is split (see notes/C04.md):
//
//	(S) state machine over an ABSTRACT block step  h' = Blk(h, r, v)  where v = block value +
//	    2^(8*len) (129 bits): Write/Sum buffering, one-shot Sum/Verify, MAC.Verify, the
//	    finalized flag, initialize's clamping. Blk is an uninterpreted function (UF), so these
//	    obligations hold for EVERY block function and need no multiplication.
//	(K) the real updateGeneric on ONE block (16 bytes, or 1..15 bytes padded with 0x01) equals
//	    PR((h + v) * r) computed by an independent limb reference, never reaches
//	    panic("unexpected overflow") and keeps h2 <= 4; updateGeneric on several blocks is the
//	    fold of single-block steps (justifies the abstraction in (S)).
//	(F) finalize computes (h mod p + s) mod 2^128 for all h < 2p.
//
// =====================================================================================

// c04Abstract selects, for the symbolic engine, whether updateGeneric is replaced by the fold of
// the uninterpreted block step. Set at the start of every harness.
var c04Abstract bool

//verif:stub golang.org/x/crypto/internal/poly1305.updateGeneric
func c04StubUpdateGeneric(state *macState, msg []byte) {
	if !c04Abstract {
		updateGeneric(state, msg) // a call from the stub itself reaches the real function
		return
	}
	c04Fold(state, msg)
}

// The assembly-backed build (tags without purego) routes mac.Write/Sum to the assembly
// function update; for the state-machine obligations it is abstracted by the same fold
// (assumption: the assembly implements the same block function as updateGeneric). That
// assumption is itself decided by the Asm* harnesses (zz_verif_c04_asm.go), which set
// c04AsmReal so that the engine's amd64 interpreter executes sum_amd64.s.
//
//verif:stub golang.org/x/crypto/internal/poly1305.update
func c04StubUpdate(state *macState, msg []byte) {
	if c04AsmReal {
		c04CallUpdate(state, msg)
		return
	}
	c04Fold(state, msg)
}

// c04AsmReal makes the stub above fall through to the real assembly routine.
var c04AsmReal bool

// c04CallUpdate is set by the amd64-only harness file (the symbol update does not exist in
// purego builds).
var c04CallUpdate func(state *macState, msg []byte)

// c04MulMode selects how the symbolic engine sees mul64 (the 64x64->128 multiplication used by
// updateGeneric and by the reference c04RefBlock):
//
//	0  the real bits.Mul64 (128-bit bit-vector multiplication);
//	1  fully uninterpreted (Verif_C04_Loop: the claim holds for every multiplication);
//	2  low word exact (a*b mod 2^64), high word an uninterpreted function of (a, b) constrained
//	   only by the bound axioms of c04MulAxioms - each of which Verif_C04_MulLemma proves for
//	   the real bits.Mul64 on all 64-bit inputs. An obligation decided in mode 2 therefore holds
//	   for the real multiplication, and the solver only sees adders (Verif_C04_Block*Abs).
var c04MulMode int

//verif:stub golang.org/x/crypto/internal/poly1305.mul64
func c04StubMul64(a, b uint64) uint128 {
	if !verifrt.Symbolic() {
		return mul64(a, b) // engine concrete mode (cross-check): the real multiplication
	}
	switch c04MulMode {
	case 1:
		return uint128{verifrt.UF64("p1305mullo", a, b), verifrt.UF64("p1305mulhi", a, b)}
	case 2:
		hi := verifrt.UF64("p1305mulhi", a, b)
		verifrt.Assume(hi <= b-1)
		verifrt.Assume(hi <= a-1)
		verifrt.Assume(hi <= c04HiBound(a, b))
		return uint128{a * b, hi}
	case 3:
		// as mode 2 for callers whose second factor is a clamped r limb (b < 2^60), written
		// without bit tricks so that the obligation stays arithmetic (integer back end)
		verifrt.Assert(b < 1<<60, "mode 3: second factor is a clamped r limb")
		hi := verifrt.UF64("p1305mulhi", a, b)
		verifrt.Assume(hi <= b-1)
		verifrt.Assume(hi <= a-1)
		verifrt.Assume(hi <= a>>4)
		return uint128{a * b, hi}
	case 4:
		// as mode 3 with the low word uninterpreted too: the obligation is then linear
		// (sums, carries, masks, shifts of opaque product words)
		verifrt.Assert(b < 1<<60, "mode 4: second factor is a clamped r limb")
		lo := verifrt.UF64("p1305mullo", a, b)
		hi := verifrt.UF64("p1305mulhi", a, b)
		verifrt.Assume(hi <= b-1)
		verifrt.Assume(hi <= a-1)
		verifrt.Assume(hi <= a>>4)
		return uint128{lo, hi}
	}
	return mul64(a, b)
}

// c04MulAxioms (mode 2), facts about (hi, lo) = a*b for all 64-bit a, b:
//   - lo = a*b mod 2^64 (the stub returns exactly that);
//   - hi <= b-1 and hi <= a-1 (wrapping subtraction, i.e. vacuous for a zero factor):
//     a*b < 2^64*min(a,b);
//   - hi <= c04HiBound(a, b): if b < 2^60 then hi <= a>>4 (a*b < a*2^60), else no constraint.
//
// c04HiBound is branch-free: mask is all ones iff b >= 2^60.
func c04HiBound(a, b uint64) uint64 {
	x := b >> 60
	mask := 0 - ((x | (0 - x)) >> 63)
	return (a >> 4) | mask
}

// Verif_C04_MulLemma: the axioms of mode 2 hold for the real bits.Mul64 on ALL 64-bit inputs.
func Verif_C04_MulLemma() {
	a, b := verifrt.U64(), verifrt.U64()
	hi, lo := bits.Mul64(a, b)
	verifrt.Assert(lo == a*b, "lo(a*b) = a*b mod 2^64")
	verifrt.Assert(hi <= b-1, "hi(a*b) <= b-1 (wrapping)")
	verifrt.Assert(hi <= a-1, "hi(a*b) <= a-1 (wrapping)")
	verifrt.Assert(hi <= c04HiBound(a, b), "b < 2^60 implies hi(a*b) <= a>>4")
	p := mul64(a, b)
	verifrt.Assert(p.hi == hi && p.lo == lo, "mul64 is bits.Mul64 with (lo, hi) order")
}

// c04Fold is the definition-level meaning of update/updateGeneric: consume msg in 16-byte
// blocks, the last one possibly short.
func c04Fold(state *macState, msg []byte) {
	for len(msg) >= TagSize {
		state.h = c04Blk(state.h, state.r, msg[:TagSize])
		msg = msg[TagSize:]
	}
	if len(msg) > 0 {
		state.h = c04Blk(state.h, state.r, msg)
	}
}

// c04Blk is the abstract block step on a block of 1..16 bytes. Symbolically: an uninterpreted
// function of (h, r, v) with v = LE(blk) + 2^(8*len(blk)) given as (lo, hi, top). Natively
// (replay / cross-check): the real generic single-block step.
func c04Blk(h [3]uint64, r [2]uint64, blk []byte) [3]uint64 {
	if len(blk) < 1 || len(blk) > TagSize {
		panic("c04Blk: bad block length")
	}
	if !verifrt.Symbolic() {
		old := c04Abstract
		c04Abstract = false
		st := macState{h: h, r: r}
		updateGeneric(&st, blk)
		c04Abstract = old
		return st.h
	}
	var b [TagSize + 1]byte
	copy(b[:], blk)
	b[len(blk)] = 1
	lo := binary.LittleEndian.Uint64(b[0:8])
	hi := binary.LittleEndian.Uint64(b[8:16])
	top := uint64(b[16])
	return [3]uint64{
		verifrt.UF64("p1305blk0", h[0], h[1], h[2], r[0], r[1], lo, hi, top),
		verifrt.UF64("p1305blk1", h[0], h[1], h[2], r[0], r[1], lo, hi, top),
		verifrt.UF64("p1305blk2", h[0], h[1], h[2], r[0], r[1], lo, hi, top),
	}
}

// c04RefState is the definition: fold of the block step over the 16-byte blocking of msg.
func c04RefState(h [3]uint64, r [2]uint64, msg []byte) [3]uint64 {
	st := macState{h: h, r: r}
	c04Fold(&st, msg)
	return st.h
}

func c04SymMac(off int) *MAC {
	m := &MAC{}
	m.h = [3]uint64{verifrt.U64(), verifrt.U64(), verifrt.U64()}
	m.r = [2]uint64{verifrt.U64() & rMask0, verifrt.U64() & rMask1}
	m.s = [2]uint64{verifrt.U64(), verifrt.U64()}
	verifrt.Fill(m.buffer[:])
	m.offset = off
	return m
}

func c04Diff(a, b []byte) byte {
	var d byte
	for i := range a {
		d |= a[i] ^ b[i]
	}
	return d
}

// c04Write: one Write(p) on the platform mac type from an ARBITRARY state (all h, r, s, buffer
// contents; offset = off in 0..15), |p| = n. Post: returns (n, nil); the accumulator is the fold
// of the block step over exactly the full 16-byte blocks of pending||p (pending =
// buffer[:offset]); the remaining bytes are buffered, offset' = (off+n) mod 16 < 16; r and s
// are unchanged. By induction, any sequence of Writes feeds the 16-byte blocking of the
// concatenated message and buffers its tail.
func c04Write(off, n int) {
	c04Abstract = true
	m := c04SymMac(off)
	h0, r0, s0 := m.h, m.r, m.s
	all := append([]byte{}, m.buffer[:off]...)
	p := verifrt.Bytes(n)
	all = append(all, p...)
	nn, err := m.mac.Write(p)
	verifrt.Assert(nn == n && err == nil, "Write returns (len(p), nil)")
	full := len(all) - len(all)%TagSize
	want := c04RefState(h0, r0, all[:full])
	verifrt.Assert(m.h == want, "accumulator = fold over the full blocks of pending||p")
	verifrt.Assert(m.offset == len(all)-full, "offset = bytes left over")
	verifrt.Assert(m.offset >= 0 && m.offset < TagSize, "0 <= offset < 16")
	if m.offset == len(all)-full {
		verifrt.Assert(c04Diff(m.buffer[:m.offset], all[full:]) == 0, "buffer holds the unconsumed tail")
	}
	verifrt.Assert(m.r == r0 && m.s == s0, "r and s unchanged by Write")
	verifrt.Reach("write-ok")
}

// Verif_C04_WriteQ: c04Write for offsets {0,1,8,15} and lengths {0,1,15,16,17,31,32,33}.
func Verif_C04_WriteQ() {
	off := []int{0, 1, 8, 15}[verifrt.Choose(0, 3)]
	n := []int{0, 1, 15, 16, 17, 31, 32, 33}[verifrt.Choose(0, 7)]
	c04Write(off, n)
}

// Verif_C04_WriteT: c04Write for every offset 0..15 and every length 0..50.
func Verif_C04_WriteT() {
	c04Write(verifrt.Choose(0, 15), verifrt.Choose(0, 50))
}

// Verif_C04_Sum: mac.Sum from an ARBITRARY state (every offset 0..15): the tag is
// finalize(h*, s) with h* = h when the buffer is empty and Blk(h, r, buffer[:offset] padded
// with 0x01) otherwise; the state (h, r, s, buffer, offset) is not modified.
func Verif_C04_Sum() {
	c04Abstract = true
	off := verifrt.Choose(0, 15)
	m := c04SymMac(off)
	h0, r0, s0, buf0 := m.h, m.r, m.s, m.buffer
	var out [TagSize]byte
	m.mac.Sum(&out)
	hs := c04RefState(h0, r0, buf0[:off])
	var want [TagSize]byte
	finalize(&want, &hs, &s0)
	verifrt.Assert(out == want, "Sum = finalize(fold incl. padded final block, s)")
	verifrt.Assert(m.h == h0 && m.r == r0 && m.s == s0 && m.buffer == buf0 && m.offset == off, "Sum does not modify the state")
	verifrt.Reach("sum-ok")
}

// c04Tag is the definition of the tag for (key, msg) over the abstract block step: r = clamp
// (key[0:16]), s = key[16:32], h = fold from 0, tag = finalize(h, s).
func c04Tag(key *[32]byte, msg []byte) [TagSize]byte {
	r := [2]uint64{
		binary.LittleEndian.Uint64(key[0:8]) & 0x0FFFFFFC0FFFFFFF,
		binary.LittleEndian.Uint64(key[8:16]) & 0x0FFFFFFC0FFFFFFC,
	}
	s := [2]uint64{binary.LittleEndian.Uint64(key[16:24]), binary.LittleEndian.Uint64(key[24:32])}
	h := c04RefState([3]uint64{}, r, msg)
	var tag [TagSize]byte
	finalize(&tag, &h, &s)
	return tag
}

func c04SymKey() *[32]byte {
	var key [32]byte
	verifrt.Fill(key[:])
	return &key
}

// Verif_C04_Init: New(key) for ALL keys: r = key[0:16] little-endian with the 22 clamped bits
// cleared (top four bits of every 32-bit word, bottom two bits of words 1..3), s = key[16:32],
// h = 0, empty buffer, not finalized. The clamp is checked bit by bit against RFC 8439 2.5.1
// (r[3],r[7],r[11],r[15] &= 15; r[4],r[8],r[12] &= 252).
func Verif_C04_Init() {
	key := c04SymKey()
	m := New(key)
	var rb [16]byte
	copy(rb[:], key[:16])
	rb[3] &= 15
	rb[7] &= 15
	rb[11] &= 15
	rb[15] &= 15
	rb[4] &= 252
	rb[8] &= 252
	rb[12] &= 252
	verifrt.Assert(m.r[0] == binary.LittleEndian.Uint64(rb[0:8]) && m.r[1] == binary.LittleEndian.Uint64(rb[8:16]), "r = clamped key[0:16]")
	verifrt.Assert(m.s[0] == binary.LittleEndian.Uint64(key[16:24]) && m.s[1] == binary.LittleEndian.Uint64(key[24:32]), "s = key[16:32]")
	verifrt.Assert(m.h == [3]uint64{} && m.offset == 0 && !m.finalized, "fresh MAC: h = 0, empty buffer, not finalized")
	verifrt.Assert(m.Size() == 16, "Size is 16")
}

// c04API: public API of internal/poly1305 over the abstract block step, ALL keys and message
// bytes, message length n = n1+n2 split into two Writes: MAC.Sum(prefix) appends exactly the
// definition's tag and is repeatable; Write after Sum panics; MAC.Verify(expected) is true iff
// expected is that 16-byte tag (all 16-byte values; lengths 15 and 17 rejected); the one-shot
// Sum gives the same tag and one-shot Verify accepts exactly it.
func c04API(n1, n2 int) {
	c04Abstract = true
	key := c04SymKey()
	msg := verifrt.Bytes(n1 + n2)
	tag := c04Tag(key, msg)

	m := New(key)
	m.Write(msg[:n1])
	m.Write(msg[n1:])
	pre := verifrt.Bytes(2)
	got := m.Sum(pre)
	verifrt.Assert(len(got) == 2+TagSize, "Sum appends 16 bytes")
	if len(got) == 2+TagSize {
		verifrt.Assert(c04Diff(got[:2], pre) == 0 && c04Diff(got[2:], tag[:]) == 0, "MAC.Sum = prefix || definition tag")
		verifrt.Observe("tag", got[2:])
	}
	again := m.Sum(nil)
	verifrt.Assert(len(again) == TagSize && c04Diff(again, tag[:]) == 0, "Sum is repeatable")
	verifrt.Assert(verifrt.Panics(func() { m.Write([]byte{1}) }), "Write after Sum panics")
	verifrt.Assert(verifrt.Panics(func() { m.Write(nil) }), "empty Write after Sum panics too")

	// Verify on a second MAC with the same input
	el := verifrt.Choose(15, 17)
	exp := verifrt.Bytes(el)
	m2 := New(key)
	m2.Write(msg)
	ok := m2.Verify(exp)
	if el != TagSize {
		verifrt.Assert(!ok, "Verify rejects tags of the wrong length")
	} else {
		verifrt.Assert(ok == (c04Diff(exp, tag[:]) == 0), "MAC.Verify accepts exactly the definition tag")
		if ok {
			verifrt.Reach("verify-accept")
		} else {
			verifrt.Reach("verify-reject")
		}
	}
	verifrt.Assert(verifrt.Panics(func() { m2.Write([]byte{1}) }), "Write after Verify panics")

	// one-shot API
	var out [16]byte
	Sum(&out, msg, key)
	verifrt.Assert(out == tag, "one-shot Sum = definition tag")
	if el == TagSize {
		var e16 [16]byte
		copy(e16[:], exp)
		verifrt.Assert(Verify(&e16, msg, key) == (e16 == tag), "one-shot Verify accepts exactly the definition tag")
	}
}

// Verif_C04_APIQ: c04API with (n1, n2) in {0,1,16,17} x {0,15,16,33}.
func Verif_C04_APIQ() {
	n1 := []int{0, 1, 16, 17}[verifrt.Choose(0, 3)]
	n2 := []int{0, 15, 16, 33}[verifrt.Choose(0, 3)]
	c04API(n1, n2)
}

// Verif_C04_APIT: c04API with n1 in 0..33 and n2 in {0,1,15,16,17,40}.
func Verif_C04_APIT() {
	n1 := verifrt.Choose(0, 33)
	n2 := []int{0, 1, 15, 16, 17, 40}[verifrt.Choose(0, 5)]
	c04API(n1, n2)
}

// ---------------------------------------------------------------------------------------
// (F) finalize
// ---------------------------------------------------------------------------------------

// Verif_C04_Finalize: for ALL s and ALL h = h0 + 2^64 h1 + 2^128 h2 with h < 2p (p = 2^130-5;
// this covers every accumulator reachable through updateGeneric, which keeps h2 <= 4):
// out = LE128((h mod p + s) mod 2^128). The reference decides h >= p by comparing limbs and
// subtracts p = 2^130 - 5 as "add 5, drop bit 130" on the low 128 bits; h and s are not modified.
func Verif_C04_Finalize() {
	h := [3]uint64{verifrt.U64(), verifrt.U64(), verifrt.U64()}
	s := [2]uint64{verifrt.U64(), verifrt.U64()}
	// h < 2p = 2^131 - 10: h2 <= 7 and not (h2 == 7 and h1 == 2^64-1 and h0 >= 2^64-10)
	verifrt.Assume(h[2] <= 7)
	verifrt.Assume(h[2] != 7 || h[1] != ^uint64(0) || h[0] < ^uint64(0)-9)
	h0, s0 := h, s
	var out [TagSize]byte
	finalize(&out, &h, &s)

	// h >= p  <=>  h2 > 3, or h2 == 3 and h1 == 2^64-1 and h0 >= 2^64-5
	geP := h0[2] > 3 || (h0[2] == 3 && h0[1] == ^uint64(0) && h0[0] >= ^uint64(0)-4)
	x0, x1 := h0[0], h0[1] // low 128 bits of h mod p
	if geP {
		// h - p = h + 5 - 2^130; the low 128 bits are those of h + 5
		x0 = h0[0] + 5
		if x0 < 5 {
			x1 = h0[1] + 1
		}
		verifrt.Reach("h>=p")
	} else {
		verifrt.Reach("h<p")
	}
	t0 := x0 + s0[0]
	t1 := x1 + s0[1]
	if t0 < x0 {
		t1++
	}
	verifrt.Assert(binary.LittleEndian.Uint64(out[0:8]) == t0 && binary.LittleEndian.Uint64(out[8:16]) == t1, "tag = (h mod p + s) mod 2^128")
	verifrt.Assert(h == h0 && s == s0, "finalize does not modify h or s")
}

// ---------------------------------------------------------------------------------------
// (K) the block step of updateGeneric
// ---------------------------------------------------------------------------------------

// c04RefBlock is an independent limb-level computation of PR((h + v) * r), where
// v = lo + 2^64 hi + 2^128 top is the block value including the 2^(8*len) bit and
// PR(T) = (T mod 2^130) + 5*floor(T / 2^130)  (congruent to T mod 2^130-5 because 2^130 = 5).
// The product is the schoolbook sum of the six limb products grouped by weight (the same
// grouping as updateGeneric - a row-wise variant is equivalent but the solvers cannot show the
// re-association of multi-limb carry chains, see notes/C04.md), but carries are never assumed
// absent: every carry-out is kept (t4, 129-bit group sums). The reduction uses an explicit
// multiplication by 5 of T >> 130, unlike updateGeneric (cc + cc>>2 on a masked copy).
// In non-symbolic runs the result is additionally compared with c04BigCongruent by the harness.
func c04RefBlock(h [3]uint64, r [2]uint64, lo, hi, top uint64) [3]uint64 {
	// a = h + v, three limbs (a2 small)
	a0, c := bits.Add64(h[0], lo, 0)
	a1, c := bits.Add64(h[1], hi, c)
	a2 := h[2] + top + c
	// schoolbook product grouped by weight: T = P00 + 2^64 (P10 + P01) + 2^128 (P20 + P11) +
	// 2^192 P21 with Pij = ai * rj (128 bits each); the group sums are kept at 129 bits.
	m0 := mul64(a0, r[0])
	m1, m1c := c04Add128(mul64(a1, r[0]), mul64(a0, r[1]))
	m2, m2c := c04Add128(mul64(a2, r[0]), mul64(a1, r[1]))
	m3 := mul64(a2, r[1])
	// limbs t0..t4 of T (t4 collects everything of weight 2^256)
	t0 := m0.lo
	t1, c := bits.Add64(m1.lo, m0.hi, 0)
	t2, c := bits.Add64(m2.lo, m1.hi, c)
	t3, c := bits.Add64(m3.lo, m2.hi, c)
	t3, c2 := bits.Add64(t3, m1c, 0)
	t4 := m3.hi + m2c + c + c2
	return c04PR4q([5]uint64{t0, t1, t2, t3, t4})
}

// c04PR5q: PR(T) = (T mod 2^130) + 5*(T >> 130) for a five-limb T (t4 < 2^32), with 5*q computed by
// multiplication. Result limbs; the top limb is not reduced.
func c04PR5q(t [5]uint64) [3]uint64 {
	l0, l1, l2 := t[0], t[1], t[2]&3
	b0 := t[2]>>2 | t[3]<<62
	b1 := t[3]>>2 | t[4]<<62
	b2 := t[4] >> 2
	f0h, f0l := bits.Mul64(b0, 5)
	f1h, f1l := bits.Mul64(b1, 5)
	g0 := f0l
	g1, c := bits.Add64(f1l, f0h, 0)
	g2 := b2*5 + f1h + c
	o0, c := bits.Add64(l0, g0, 0)
	o1, c := bits.Add64(l1, g1, c)
	o2 := l2 + g2 + c
	return [3]uint64{o0, o1, o2}
}

// c04PR4q: the same value computed as low + 4q + q, where 4q is T >> 128 with its two low bits
// cleared (this is the shape the solvers can match against updateGeneric; Verif_C04_PRLemma
// shows c04PR4q == c04PR5q for all T).
func c04PR4q(t [5]uint64) [3]uint64 {
	l0, l1, l2 := t[0], t[1], t[2]&3
	c0, c1, c2 := t[2]&^3, t[3], t[4]
	o0, c := bits.Add64(l0, c0, 0)
	o1, c := bits.Add64(l1, c1, c)
	o2 := l2 + c2 + c
	q0 := c0>>2 | (c1&3)<<62
	q1 := c1>>2 | (c2&3)<<62
	q2 := c2 >> 2
	o0, c = bits.Add64(o0, q0, 0)
	o1, c = bits.Add64(o1, q1, c)
	o2 = o2 + q2 + c
	return [3]uint64{o0, o1, o2}
}

// Verif_C04_PRLemma: for ALL five-limb T with t4 < 2^32: c04PR4q(T) == c04PR5q(T) limb for limb
// (pure arithmetic: 4q + q = 5q over 130+ bits with limb carries).
func Verif_C04_PRLemma() {
	t := [5]uint64{verifrt.U64(), verifrt.U64(), verifrt.U64(), verifrt.U64(), verifrt.U64()}
	verifrt.Assume(t[4] < 1<<32)
	verifrt.Assert(c04PR4q(t) == c04PR5q(t), "low + 4q + q == low + 5q")
}

// c04Add128 adds two 128-bit values and returns the 129th bit separately.
func c04Add128(a, b uint128) (s uint128, carry uint64) {
	lo, c := bits.Add64(a.lo, b.lo, 0)
	hi, c := bits.Add64(a.hi, b.hi, c)
	return uint128{lo, hi}, c
}

// c04BigCongruent reports whether got = g0 + 2^64 g1 + 2^128 g2 is congruent to (h + v) * r
// modulo p = 2^130 - 5: the mathematical definition of one block step. It is a deliberately
// naive big-number computation on 16-bit digits (schoolbook product, reduction by repeated
// subtraction-free folding x -> (x mod 2^130) + 5 (x >> 130), final compare against p), with no
// code shared with the package or with c04RefBlock. Used only in non-symbolic runs (replay and
// the random cross-check, natively and in the engine's concrete mode), as an independent
// anchor for c04RefBlock. (math/big is not usable here: the engine's concrete mode does not
// support it.)
func c04BigCongruent(got, h [3]uint64, r [2]uint64, lo, hi, top uint64) bool {
	digits := func(w ...uint64) []uint32 {
		var d []uint32
		for _, x := range w {
			for k := 0; k < 4; k++ {
				d = append(d, uint32(x>>(16*uint(k)))&0xffff)
			}
		}
		return d
	}
	norm := func(d []uint32) []uint32 { // propagate carries, digits < 2^16
		var c uint32
		for i := range d {
			v := d[i] + c
			d[i] = v & 0xffff
			c = v >> 16
		}
		for c > 0 {
			d = append(d, c&0xffff)
			c >>= 16
		}
		return d
	}
	// reduce x modulo p: fold while x >= 2^130 (digit 8 holds bits 128..143), then x >= p ? x - p
	reduce := func(x []uint32) []uint32 {
		for {
			x = norm(x)
			for len(x) < 10 {
				x = append(x, 0)
			}
			high := false
			for i := 9; i < len(x); i++ {
				high = high || x[i] != 0
			}
			if !high && x[8] < 4 {
				break
			}
			// q = x >> 130
			q := make([]uint32, len(x)-8)
			for i := 8; i < len(x); i++ {
				v := x[i] >> 2
				if i+1 < len(x) {
					v |= (x[i+1] & 3) << 14
				}
				q[i-8] = v
			}
			lowd := append([]uint32{}, x[:9]...)
			lowd[8] &= 3
			for i := range q {
				for len(lowd) <= i {
					lowd = append(lowd, 0)
				}
				lowd[i] += 5 * q[i]
			}
			x = lowd
		}
		// x < 2^130; x >= p iff x + 5 >= 2^130
		y := append([]uint32{}, x...)
		y[0] += 5
		y = norm(y)
		for len(y) < 10 {
			y = append(y, 0)
		}
		if y[8] >= 4 || y[9] != 0 {
			y[8] &= 3 // x - p = x + 5 - 2^130
			y[9] = 0
			return y[:10]
		}
		return x[:10]
	}
	a := digits(h[0], h[1], h[2])
	v := digits(lo, hi, top)
	for i := range a {
		a[i] += v[i]
	}
	a = norm(a)
	rd := digits(r[0], r[1])
	prod := make([]uint32, len(a)+len(rd)+1)
	for i := range a {
		var c uint32
		for j := range rd {
			t := a[i]*rd[j] + prod[i+j] + c
			prod[i+j] = t & 0xffff
			c = t >> 16
		}
		prod[i+len(rd)] += c
	}
	w, g := reduce(prod), reduce(digits(got[0], got[1], got[2]))
	for i := 0; i < 10; i++ {
		if w[i] != g[i] {
			return false
		}
	}
	return true
}

func c04SymHR() (h [3]uint64, r [2]uint64) {
	// h2 is drawn as a 3-bit value so that the random cross-check inputs satisfy the assumption often
	h = [3]uint64{verifrt.U64(), verifrt.U64(), uint64(verifrt.U8() & 7)}
	verifrt.Assume(h[2] <= 4) // accumulator invariant: established by h = 0, preserved (asserted below)
	r = [2]uint64{verifrt.U64() & rMask0, verifrt.U64() & rMask1}
	return
}

// c04Block: the real updateGeneric on ONE block of n bytes (16: full block, 2^128 added;
// 1..15: padded with a 0x01 byte), for ALL block bytes, ALL clamped r and ALL accumulators with
// h2 <= 4: no panic("unexpected overflow"), the new accumulator equals c04RefBlock limb for
// limb, and h2' <= 4 again. r is not modified.
func c04Block(n, mulMode int) { c04BlockW(n, mulMode, 2) }

// c04BlockW: as c04Block; what = 0 asserts the equality (and no panic) only, 1 the invariant
// h2' <= 4 (and no panic) only, 2 both. The split exists because with the real multiplication
// the equality takes cvc5 ~10 s but the invariant 30-280 s per block length, whereas with the
// abstracted high word (mode 2) the invariant takes seconds.
func c04BlockW(n, mulMode, what int) {
	c04Abstract = false
	c04MulMode = mulMode
	h, r := c04SymHR()
	blk := verifrt.Bytes(n)
	st := macState{h: h, r: r}
	panicked := verifrt.Panics(func() { updateGeneric(&st, blk) })
	verifrt.Assert(!panicked, "updateGeneric never reaches an overflow panic")
	if panicked {
		return
	}
	var b [TagSize + 1]byte
	copy(b[:], blk)
	b[n] = 1
	vlo, vhi, vtop := binary.LittleEndian.Uint64(b[0:8]), binary.LittleEndian.Uint64(b[8:16]), uint64(b[16])
	if what != 1 {
		want := c04RefBlock(h, r, vlo, vhi, vtop)
		verifrt.Assert(st.h == want, "block step = PR((h + block + 2^(8 len)) * r)")
		if !verifrt.Symbolic() {
			// non-symbolic anchor of the limb reference: the definition modulo 2^130-5, naive bignum
			verifrt.Assert(c04BigCongruent(want, h, r, vlo, vhi, vtop), "limb reference congruent to (h+v)*r mod 2^130-5 (naive bignum)")
		}
	}
	if what != 0 {
		verifrt.Assert(st.h[2] <= 4, "accumulator invariant h2 <= 4 preserved")
	}
	verifrt.Assert(st.r == r, "r unchanged")
	verifrt.Reach("block-ok")
}

// Verif_C04_BlockFull: c04Block for a full 16-byte block, real 128-bit multiplication
// (bit-vector obligation at full width; cvc5 first).
func Verif_C04_BlockFull() { c04Block(TagSize, 0) }

// Verif_C04_BlockFullAbs: c04Block for a full 16-byte block with the multiplication of mode 2
// (shared high-word function + bound axioms proven by Verif_C04_MulLemma).
func Verif_C04_BlockFullAbs() { c04Block(TagSize, 2) }

// Verif_C04_BlockPartialAbsQ: c04Block for final blocks of length 1, 8 and 15, mode 2.
func Verif_C04_BlockPartialAbsQ() { c04Block([]int{1, 8, 15}[verifrt.Choose(0, 2)], 2) }

// Verif_C04_BlockPartialAbs0..2: c04Block for final blocks of every length 1..15 (five lengths
// per harness function), mode 2.
func Verif_C04_BlockPartialAbs0() { c04Block(verifrt.Choose(1, 5), 2) }
func Verif_C04_BlockPartialAbs1() { c04Block(verifrt.Choose(6, 10), 2) }
func Verif_C04_BlockPartialAbs2() { c04Block(verifrt.Choose(11, 15), 2) }

// Verif_C04_BlockPartialQ: final blocks of lengths 1, 8 and 15, real multiplication: equality
// with the reference and no overflow panic (the invariant is in Verif_C04_BlockInvAbs*).
func Verif_C04_BlockPartialQ() { c04BlockW([]int{1, 8, 15}[verifrt.Choose(0, 2)], 0, 0) }

// Verif_C04_BlockPartial0..2: as BlockPartialQ for EVERY length 1..15 (five lengths per harness
// function), real 128-bit multiplication.
func Verif_C04_BlockPartial0() { c04BlockW(verifrt.Choose(1, 5), 0, 0) }
func Verif_C04_BlockPartial1() { c04BlockW(verifrt.Choose(6, 10), 0, 0) }
func Verif_C04_BlockPartial2() { c04BlockW(verifrt.Choose(11, 15), 0, 0) }

// Verif_C04_BlockInvAbsQ / Verif_C04_BlockInvAbs: the accumulator invariant h2' <= 4 (and no
// overflow panic) for block lengths {1,8,15,16} / every length 1..16, with the multiplication of
// mode 2 (exact low word, uninterpreted high word with the bound facts of c04StubMul64, which
// are assumptions of this obligation; for the full block Verif_C04_BlockFull shows the
// invariant with the real multiplication as well).
func Verif_C04_BlockInvAbsQ() { c04BlockW([]int{1, 8, 15, 16}[verifrt.Choose(0, 3)], 2, 1) }
func Verif_C04_BlockInvAbs()  { c04BlockW(verifrt.Choose(1, 16), 2, 1) }

// Verif_C04_Loop: the real updateGeneric on a message of n bytes (n in
// {0,1,15,16,17,31,32,33,47,48,49,50}: zero to three full blocks with and without a tail, all bytes, all
// h and r) equals the left fold of real single-block updateGeneric calls over its 16-byte
// blocking (last block short). This is what the abstraction used in (S) assumes about
// updateGeneric besides the single-block meaning decided by BlockFull/BlockPartial. The 64x64
// multiplication is abstracted by uninterpreted functions here (the claim does not depend on
// what mul64 computes; the overflow panics then simply become reachable on both sides alike).
func Verif_C04_Loop() {
	c04Loop([]int{0, 1, 15, 16, 17, 31, 32, 33, 47, 48, 49, 50}[verifrt.Choose(0, 11)])
}

// Verif_C04_LoopQ: as Verif_C04_Loop for n in {0,16,17,33}.
func Verif_C04_LoopQ() {
	c04Loop([]int{0, 16, 17, 33}[verifrt.Choose(0, 3)])
}

func c04Loop(n int) {
	c04Abstract = false
	c04MulMode = 1
	h := [3]uint64{verifrt.U64(), verifrt.U64(), verifrt.U64()}
	r := [2]uint64{verifrt.U64(), verifrt.U64()}
	msg := verifrt.Bytes(n)
	a := macState{h: h, r: r}
	pa := verifrt.Panics(func() { updateGeneric(&a, msg) })
	b := macState{h: h, r: r}
	pb := verifrt.Panics(func() {
		rest := msg
		for len(rest) > 0 {
			k := len(rest)
			if k > TagSize {
				k = TagSize
			}
			updateGeneric(&b, rest[:k])
			rest = rest[k:]
		}
	})
	verifrt.Assert(pa == pb, "multi-block update panics iff the block-by-block fold does")
	if !pa && !pb {
		verifrt.Assert(a.h == b.h && a.r == b.r, "multi-block update = fold of single-block updates")
		verifrt.Reach("loop-ok")
	}
}
