// Package verifrt is the harness runtime shared by symbolic and native runs.
//
// Under the symbolic engine (gosym) every function here is intercepted by name; the Go
// bodies below are what runs natively: in replay mode (VERIF_REPLAY=<file>) symbols take
// the solver's values in creation order; in random mode (VERIF_RANDOM=<seed>) they take
// splitmix64 values (the engine's -concrete mode uses the same generator so that both
// runs can be compared event by event).
package verifrt

import (
	"crypto/sha256"
	"encoding/binary"
	"encoding/hex"
	"encoding/json"
	"fmt"
	"os"
	"strconv"
	"strings"
	"time"
)

// Violation is the panic value raised natively by a failed Assert.
type Violation struct{ Label string }

// AssumeFailed is raised natively when an Assume does not hold (path outside the claim).
type AssumeFailed struct{}

var (
	loaded  bool
	values  []string
	pos     int
	rndMode bool
	rnd     uint64
	Events  []string
)

func load() {
	if loaded {
		return
	}
	loaded = true
	if f := os.Getenv("VERIF_REPLAY"); f != "" {
		b, err := os.ReadFile(f)
		if err != nil {
			panic(err)
		}
		var doc struct {
			Values []string `json:"values"`
		}
		if err := json.Unmarshal(b, &doc); err != nil {
			panic(err)
		}
		values = doc.Values
		return
	}
	if s := os.Getenv("VERIF_RANDOM"); s != "" {
		rndMode = true
		v, _ := strconv.ParseUint(s, 10, 64)
		rnd = v
	}
}

// ResetRandom restarts the generator (native cross-check driver).
func ResetRandom(seed uint64) {
	loaded = true
	rndMode = true
	rnd = seed
	values = nil
	pos = 0
	Events = nil
}

func splitmix() uint64 {
	rnd += 0x9e3779b97f4a7c15
	z := rnd
	z = (z ^ (z >> 30)) * 0xbf58476d1ce4e5b9
	z = (z ^ (z >> 27)) * 0x94d049bb133111eb
	return z ^ (z >> 31)
}

func next(bits int) uint64 {
	load()
	if rndMode {
		v := splitmix()
		// bias towards small and boundary values a little: one in four draws is masked small
		if bits < 64 {
			v &= (uint64(1) << uint(bits)) - 1
		}
		return v
	}
	if pos >= len(values) {
		pos++
		return 0
	}
	s := values[pos]
	pos++
	v, err := strconv.ParseUint(s, 10, 64)
	if err != nil {
		panic("verifrt: bad replay value " + s)
	}
	return v
}

// Symbolic reports whether the harness is being executed by the symbolic engine.
func Symbolic() bool { return false }

func U8() uint8   { return uint8(next(8)) }
func U16() uint16 { return uint16(next(16)) }
func U32() uint32 { return uint32(next(32)) }
func U64() uint64 { return next(64) }
func Int() int    { return int(next(64)) }
func I64() int64  { return int64(next(64)) }
func I32() int32  { return int32(next(32)) }
func Bool() bool  { return next(1)&1 == 1 }

// Bytes returns n fresh symbolic bytes (n must be concrete).
func Bytes(n int) []byte {
	b := make([]byte, n)
	for i := range b {
		b[i] = U8()
	}
	return b
}

// Fill makes the contents of b symbolic.
func Fill(b []byte) {
	for i := range b {
		b[i] = U8()
	}
}

// String returns a fresh symbolic string of n bytes.
func String(n int) string { return string(Bytes(n)) }

// Choose returns a value in [lo,hi]; the engine forks one path per value (concrete in each).
func Choose(lo, hi int) int {
	load()
	if rndMode {
		return lo + int(splitmix()%uint64(hi-lo+1))
	}
	v := int(next(64))
	if v < lo || v > hi {
		panic(AssumeFailed{})
	}
	return v
}

// Concretize forks on the value of x (engine) / identity (native).
func Concretize(x int) int { return x }

// Assume restricts the inputs considered.
func Assume(c bool) {
	if !c {
		panic(AssumeFailed{})
	}
}

// Assert states the property. A failure is a counterexample.
func Assert(c bool, label string) {
	if rndMode {
		Events = append(Events, fmt.Sprintf("assert %s %v", label, c))
	}
	if !c {
		panic(Violation{label})
	}
}

// Observe logs a value for the engine-vs-native translator cross-check.
func Observe(label string, b []byte) {
	if rndMode {
		Events = append(Events, "observe "+label+" "+hex.EncodeToString(b))
	}
}

func ObserveU64(label string, v uint64) {
	if rndMode {
		Events = append(Events, fmt.Sprintf("observe %s %x", label, v))
	}
}

// Reach marks a point that the vacuity check requires to be reachable on some path.
func Reach(label string) {}

// MakeLimit sets the largest symbolic allocation size (elements) that is still inside the
// claim; a make() with a larger symbolic size ends the path as outside the claim.
func MakeLimit(n int) {}

// Unwind sets the per-branch unwinding bound for symbolic loops in this harness.
func Unwind(n int) {}

// Goroutines(true) makes the symbolic engine run `go` statements as cooperatively scheduled
// engine threads (default: goroutines are recorded but not run). Natively goroutines always run.
func Goroutines(on bool) {}

// SchedBound sets the number of voluntary context switches the engine may insert per path at
// synchronisation points (0: threads run until they block). Natively a no-op.
func SchedBound(k int) {}

// AsmMulHiUF(name) makes the engine's amd64 interpreter model MULQ with an exact low word and
// the high word as the uninterpreted function name(operand, AX) under bounds that hold for the
// real multiplication (the same abstraction a harness applies to the Go side). Natively a no-op.
func AsmMulHiUF(name string) {}

// AsmMulLoUF(name): additionally the low product words of MULQ/IMULQ are name(operand, other).
func AsmMulLoUF(name string) {}

// Yield lets every other goroutine run until it blocks or finishes (engine); natively it sleeps
// briefly so that started goroutines get to their blocking points.
func Yield() { time.Sleep(20 * time.Millisecond) }

// OnWait registers the environment ("rely") step for (*sync.Cond).Wait: under the symbolic
// engine every Wait releases the Cond's lock, runs f (the state changes other goroutines may
// make, e.g. calls of the real mutators with symbolic arguments), re-acquires the lock and
// returns; at most WaitBound (default 2) waits per path, further ones are outside the claim.
// Natively this only records f: sync.Cond.Wait is the real one, so a harness whose native run
// can reach a Wait must itself start a goroutine that performs the same steps in the same order.
func OnWait(f func()) {}

// WaitBound sets the number of Cond.Wait environment steps allowed on one path.
func WaitBound(n int) {}

// Panics runs f and reports whether it panicked (violations and failed assumptions pass through).
func Panics(f func()) (p bool) {
	defer func() {
		if r := recover(); r != nil {
			switch r.(type) {
			case Violation, AssumeFailed:
				panic(r)
			}
			p = true
		}
	}()
	f()
	return false
}

// PanicValue runs f and returns the recovered value (nil if none).
func PanicValue(f func()) (v any) {
	defer func() {
		if r := recover(); r != nil {
			switch r.(type) {
			case Violation, AssumeFailed:
				panic(r)
			}
			v = r
		}
	}()
	f()
	return nil
}

func oracle(name string, outLen int, args ...[]byte) []byte {
	h := sha256.New()
	h.Write([]byte(name))
	var l [8]byte
	for _, a := range args {
		binary.LittleEndian.PutUint64(l[:], uint64(len(a)))
		h.Write(l[:])
		h.Write(a)
	}
	seed := h.Sum(nil)
	out := make([]byte, 0, outLen+32)
	ctr := uint64(0)
	for len(out) < outLen {
		binary.LittleEndian.PutUint64(l[:], ctr)
		x := sha256.Sum256(append(append([]byte{}, seed...), l[:]...))
		out = append(out, x[:]...)
		ctr++
	}
	return out[:outLen]
}

// UFBytes is an uninterpreted function from byte strings to outLen bytes
// (natively: a SHA-256 based random oracle keyed by name).
func UFBytes(name string, outLen int, args ...[]byte) []byte {
	return oracle(name, outLen, args...)
}

// UF64 is an uninterpreted function over 64-bit words.
func UF64(name string, args ...uint64) uint64 {
	b := make([]byte, 8*len(args))
	for i, a := range args {
		binary.LittleEndian.PutUint64(b[8*i:], a)
	}
	return binary.LittleEndian.Uint64(oracle(name, 8, b))
}

// UF32 is an uninterpreted function over 32-bit words.
func UF32(name string, args ...uint32) uint32 {
	b := make([]byte, 4*len(args))
	for i, a := range args {
		binary.LittleEndian.PutUint32(b[4*i:], a)
	}
	return binary.LittleEndian.Uint32(oracle(name, 4, b))
}

// Main is called by the generated replay test. It runs f and reports the outcome on stdout.
func Main(f func()) (outcome string) {
	defer func() {
		if r := recover(); r != nil {
			switch x := r.(type) {
			case Violation:
				outcome = "VIOLATED " + x.Label
			case AssumeFailed:
				outcome = "ASSUME-FAILED"
			default:
				outcome = "PANIC " + strings.ReplaceAll(fmt.Sprint(r), "\n", " ")
			}
		}
	}()
	f()
	return "OK"
}
