//go:build verif

package rc2

import (
	"golang.org/x/crypto/internal/verifrt"
)

func c12le16(b []byte) uint16 { return uint16(b[0]) | uint16(b[1])<<8 }

func c12le64(b []byte) uint64 {
	return uint64(c12le16(b)) | uint64(c12le16(b[2:]))<<16 | uint64(c12le16(b[4:]))<<32 | uint64(c12le16(b[6:]))<<48
}

func c12rol16(x uint16, s uint) uint16 { return x<<s | x>>(16-s) }

// c12RefEncrypt transcribes RFC 2268 section 3 ("Encryption algorithm"): R[0..3] little-endian
// words, j = 0; five mixing rounds, one mashing round, six mixing rounds, one mashing round,
// five mixing rounds. Mix up R[i]: R[i] = R[i] + K[j] + (R[i-1] & R[i-2]) + (~R[i-1] & R[i-3]);
// j++; R[i] = R[i] rol s[i], s = (1,2,3,5). Mash R[i]: R[i] += K[R[i-1] & 63]. Indices mod 4.
func c12RefEncrypt(k *[64]uint16, r [4]uint16) [4]uint16 {
	s := [4]uint{1, 2, 3, 5}
	j := 0
	mix := func() {
		for i := 0; i < 4; i++ {
			r[i] = r[i] + k[j] + (r[(i+3)%4] & r[(i+2)%4]) + (^r[(i+3)%4] & r[(i+1)%4])
			j++
			r[i] = c12rol16(r[i], s[i])
		}
	}
	mash := func() {
		for i := 0; i < 4; i++ {
			r[i] = r[i] + k[r[(i+3)%4]&63]
		}
	}
	for n := 0; n < 5; n++ {
		mix()
	}
	mash()
	for n := 0; n < 6; n++ {
		mix()
	}
	mash()
	for n := 0; n < 5; n++ {
		mix()
	}
	return r
}

// c12RefDecrypt transcribes RFC 2268 section 4: j = 63; five r-mixing rounds, one r-mashing
// round, six r-mixing, one r-mashing, five r-mixing. R-mix R[i] (i = 3..0): R[i] = R[i] ror s[i];
// R[i] = R[i] - K[j] - (R[i-1] & R[i-2]) - (~R[i-1] & R[i-3]); j--. R-mash: R[i] -= K[R[i-1]&63].
func c12RefDecrypt(k *[64]uint16, r [4]uint16) [4]uint16 {
	s := [4]uint{1, 2, 3, 5}
	j := 63
	rmix := func() {
		for i := 3; i >= 0; i-- {
			r[i] = c12rol16(r[i], 16-s[i])
			r[i] = r[i] - k[j] - (r[(i+3)%4] & r[(i+2)%4]) - (^r[(i+3)%4] & r[(i+1)%4])
			j--
		}
	}
	rmash := func() {
		for i := 3; i >= 0; i-- {
			r[i] = r[i] - k[r[(i+3)%4]&63]
		}
	}
	for n := 0; n < 5; n++ {
		rmix()
	}
	rmash()
	for n := 0; n < 6; n++ {
		rmix()
	}
	rmash()
	for n := 0; n < 5; n++ {
		rmix()
	}
	return r
}

// Verif_C12_Rc2RoundTrip: for ALL expanded keys K[0..63] (every word a free symbol: a superset
// of what any key / effective-bits value expands to) and ALL blocks: Decrypt(Encrypt(x)) = x =
// Encrypt(Decrypt(x)) (also in place), and Encrypt/Decrypt equal the RFC 2268 section 3/4
// transcriptions (5-1-6-1-5 round structure, data-dependent K[R&63] mashing).
func Verif_C12_Rc2RoundTrip() {
	c := &rc2Cipher{}
	for i := range c.k {
		c.k[i] = verifrt.U16()
	}
	x := verifrt.Bytes(8)
	ct := make([]byte, 8)
	pt := make([]byte, 8)
	c.Encrypt(ct, x)
	c.Decrypt(pt, ct)
	verifrt.Assert(c12le64(pt) == c12le64(x), "rc2: Decrypt(Encrypt(x)) == x")
	in := [4]uint16{c12le16(x), c12le16(x[2:]), c12le16(x[4:]), c12le16(x[6:])}
	e := c12RefEncrypt(&c.k, in)
	for i := 0; i < 4; i++ {
		verifrt.Assert(c12le16(ct[2*i:]) == e[i], "rc2: Encrypt == RFC 2268")
	}
	buf := append([]byte{}, x...)
	c.Encrypt(buf, buf)
	verifrt.Assert(c12le64(buf) == c12le64(ct), "rc2: in-place Encrypt == out-of-place")
	c.Decrypt(buf, buf)
	verifrt.Assert(c12le64(buf) == c12le64(x), "rc2: in-place round trip")
	c.Decrypt(ct, x)
	d := c12RefDecrypt(&c.k, in)
	for i := 0; i < 4; i++ {
		verifrt.Assert(c12le16(ct[2*i:]) == d[i], "rc2: Decrypt == RFC 2268")
	}
	c.Encrypt(pt, ct)
	verifrt.Assert(c12le64(pt) == c12le64(x), "rc2: Encrypt(Decrypt(x)) == x")
	verifrt.Assert(c.BlockSize() == 8, "rc2: block size 8")
}

// c12RefExpand transcribes RFC 2268 section 2 (key expansion) for a T-byte key and T1
// effective bits: T8 = (T1+7)/8; TM = 255 MOD 2^(8 + T1 - 8*T8);
// for i = T..127: L[i] = PITABLE[L[i-1] + L[i-T]]; L[128-T8] = PITABLE[L[128-T8] & TM];
// for i = 127-T8 .. 0: L[i] = PITABLE[L[i+1] XOR L[i+T8]]; K[i] = L[2i] + 256*L[2i+1].
// PITABLE is the package's table (its contents are outside the claim).
func c12RefExpand(key []byte, t1 int) [64]uint16 {
	var L [128]byte
	T := len(key)
	copy(L[:], key)
	t8 := (t1 + 7) / 8
	tm := byte(uint(255) % (uint(1) << uint(8+t1-8*t8)))
	for i := T; i <= 127; i++ {
		L[i] = piTable[byte(L[i-1]+L[i-T])]
	}
	L[128-t8] = piTable[L[128-t8]&tm]
	for i := 127 - t8; i >= 0; i-- {
		L[i] = piTable[L[i+1]^L[i+t8]]
	}
	var k [64]uint16
	for i := range k {
		k[i] = uint16(L[2*i]) + 256*uint16(L[2*i+1])
	}
	return k
}

func c12Expand(maxKey int) {
	n := verifrt.Choose(1, maxKey)
	key := verifrt.Bytes(n)
	// effective bits: the PKCS#12 use (8*len), plus one value below and the byte-unaligned ones
	var t1 int
	switch verifrt.Choose(0, 3) {
	case 0:
		t1 = 8 * n
	case 1:
		t1 = 8*n - 3
	case 2:
		t1 = 1
	default:
		t1 = 1024
	}
	if t1 > 1024 {
		t1 = 1024
	}
	var c interface {
		Encrypt(dst, src []byte)
	}
	var err error
	p := verifrt.Panics(func() { c, err = New(key, t1) })
	verifrt.Assert(!p && err == nil && c != nil, "rc2: New accepts key lengths 1..128 with 1 <= T1 <= 1024")
	ref := c12RefExpand(key, t1)
	got := c.(*rc2Cipher).k
	for i := range ref {
		verifrt.Assert(got[i] == ref[i], "rc2: expanded key == RFC 2268 section 2")
	}
	verifrt.Reach("expanded")
}

// Verif_C12_Rc2Expand: for key lengths 1..16 with ALL key bytes symbolic and effective key
// bits T1 in {8*len, 8*len-3, 1, 1024}: New does not panic or err and the expanded key equals the
// RFC 2268 section 2 transcription (T8/TM effective-bits reduction included).
func Verif_C12_Rc2Expand() { c12Expand(16) }

// Verif_C12_Rc2ExpandT: same for key lengths 1..128.
func Verif_C12_Rc2ExpandT() { c12Expand(128) }
