//go:build verif

package pkcs12

import (
	"crypto/cipher"
	"crypto/des"
	"crypto/hmac"
	"crypto/sha1"
	"crypto/x509/pkix"
	"encoding/asn1"
	"hash"
	"unicode/utf16"

	"golang.org/x/crypto/internal/verifrt"
)

// ---------------------------------------------------------------------------------------------
// Stubs (engine only; natively the real functions run).

// SHA-1 as an uninterpreted function of the message.
//
//verif:stub golang.org/x/crypto/pkcs12.sha1Sum
func stubSha1Sum(in []byte) []byte {
	if !verifrt.Symbolic() {
		return sha1Sum(in)
	}
	return verifrt.UFBytes("sha1", 20, in)
}

type c21HMAC struct {
	key, cur []byte
}

func (h *c21HMAC) Write(p []byte) (int, error) { h.cur = append(h.cur, p...); return len(p), nil }
func (h *c21HMAC) Sum(b []byte) []byte {
	return append(b, verifrt.UFBytes("hmac-sha1", 20, h.key, h.cur)...)
}
func (h *c21HMAC) Reset()         { h.cur = nil }
func (h *c21HMAC) Size() int      { return 20 }
func (h *c21HMAC) BlockSize() int { return 64 }

// HMAC-SHA1 as an uninterpreted function of (key, message).
//
//verif:stub crypto/hmac.New
func stubHMACNew(h func() hash.Hash, key []byte) hash.Hash {
	if !verifrt.Symbolic() {
		return hmac.New(h, key)
	}
	return &c21HMAC{key: append([]byte(nil), key...)}
}

// ObjectIdentifier.String only feeds error message texts here (strings.Builder uses unsafe).
//
//verif:stub (encoding/asn1.ObjectIdentifier).String
func stubOIDString(oi asn1.ObjectIdentifier) string {
	if !verifrt.Symbolic() {
		return oi.String()
	}
	return "oid"
}

// c21Plain is what the (stubbed) CBC decrypter produces: arbitrary bytes chosen by the harness.
var c21Plain []byte

type c21Mode struct{}

func (c21Mode) BlockSize() int { return 8 }
func (c21Mode) CryptBlocks(dst, src []byte) {
	verifrt.Assert(len(src)%8 == 0 && len(dst) >= len(src), "CryptBlocks receives whole blocks")
	copy(dst, c21Plain)
}

// The PBE cipher set-up (ASN.1 parameter parsing via reflect, key derivation, 3DES/RC2) is
// replaced by a block mode that "decrypts" to the harness-chosen plaintext; natively the real
// set-up runs and the harness encrypts that plaintext under the really derived key.
//
//verif:stub golang.org/x/crypto/pkcs12.pbDecrypterFor
func stubPbDecrypterFor(algorithm pkix.AlgorithmIdentifier, password []byte) (cipher.BlockMode, int, error) {
	if !verifrt.Symbolic() {
		return pbDecrypterFor(algorithm, password)
	}
	return c21Mode{}, 8, nil
}

// ---------------------------------------------------------------------------------------------
// RFC 7292 appendix B.2 transcription (u = 20, v = 64 for SHA-1), H as a parameter.

func c21Fill(x []byte, v int) []byte {
	if len(x) == 0 {
		return nil
	}
	n := v * ((len(x) + v - 1) / v)
	out := make([]byte, n)
	for i := range out {
		out[i] = x[i%len(x)]
	}
	return out
}

func c21RefPBKDF(H func([]byte) []byte, u, v int, salt, password []byte, r int, id byte, n int) []byte {
	D := make([]byte, v)
	for i := range D {
		D[i] = id
	}
	I := append(c21Fill(salt, v), c21Fill(password, v)...)
	c := (n + u - 1) / u
	var A []byte
	for i := 1; i <= c; i++ {
		Ai := H(append(append([]byte(nil), D...), I...))
		for j := 1; j < r; j++ {
			Ai = H(Ai)
		}
		A = append(A, Ai...)
		B := make([]byte, v)
		for k := range B {
			B[k] = Ai[k%u]
		}
		// I_j = (I_j + B + 1) mod 2^(8v), big-endian, byte-wise with carry
		for j := 0; j < len(I)/v; j++ {
			carry := uint16(1)
			for k := v - 1; k >= 0; k-- {
				s := uint16(I[j*v+k]) + uint16(B[k]) + carry
				I[j*v+k] = byte(s)
				carry = s >> 8
			}
		}
	}
	return A[:n]
}

// c21PBKDF: pbkdf against the transcription with the hash an arbitrary function h (uninterpreted)
// whose output has `hz` leading zero bytes followed by a non-zero byte (hz forked; this fixes the
// word/byte length of the big.Int B and keeps the math/big normalisation from forking on every
// leading byte), salt 8 symbolic bytes with `sz` leading zeros then a non-zero byte, password the
// BMP string of npw symbolic non-NUL ASCII characters (incl. terminator; npw = -1: nil password,
// no P block), ID symbolic, r iterations, output size n (n > 20 exercises the I_j update through
// math/big: add, carry out of 2^512, results shorter than 64 bytes).
func c21PBKDF(hz, sz, npw, r, n int) { c21PBKDFSalt(hz, sz, 8, npw, r, n) }

// c21PBKDFSalt is c21PBKDF with a salt of saltLen symbolic bytes.
func c21PBKDFSalt(hz, sz, saltLen, npw, r, n int) {
	var seen [][]byte // inputs of the hash calls made by the code under test, in order
	recording := true
	h := func(in []byte) []byte {
		if recording {
			seen = append(seen, append([]byte(nil), in...))
		}
		out := verifrt.UFBytes("H", 20, in)
		for i := 0; i < hz; i++ {
			out[i] = 0
		}
		verifrt.Assume(out[hz] != 0)
		return out
	}
	salt := verifrt.Bytes(saltLen)
	for i := 0; i < sz; i++ {
		salt[i] = 0
	}
	verifrt.Assume(salt[sz] != 0)
	var pw []byte
	if npw >= 0 {
		for i := 0; i < npw; i++ {
			ch := verifrt.U8()
			verifrt.Assume(ch != 0 && ch < 0x80)
			pw = append(pw, 0, ch)
		}
		pw = append(pw, 0, 0)
	}
	id := verifrt.U8()
	got := pbkdf(h, 20, 64, salt, pw, r, id, n)
	recording = false
	verifrt.Assert(len(got) == n, "derived key length")
	verifrt.Observe("key", got)
	c := (n + 19) / 20
	verifrt.Assert(len(seen) == c*r, "r hash calls per 20-byte block of the key")
	want := c21RefBlocks(64, salt, pw, id, c, func(DI []byte, i int) []byte {
		// block i: the code hashed exactly D | I_i first (I_i after i-1 updates) ...
		first := seen[i*r]
		verifrt.Assert(len(first) == len(DI), "hash input length = |D| + |S| + |P|")
		for k := range DI {
			verifrt.Assert(first[k] == DI[k], "block input = D | I with I_j = I_j + B + 1 mod 2^512 (RFC 7292 B.2 step 6)")
		}
		// ... then iterated r-1 times on the 20-byte digests; A_i is a function of what the code
		// hashed, so that the next I is compared against the code's own A_i.
		Ai := h(first)
		for j := 1; j < r; j++ {
			verifrt.Assert(len(seen[i*r+j]) == 20, "iterations hash the previous digest")
			for k := range Ai {
				verifrt.Assert(seen[i*r+j][k] == Ai[k], "iterations hash the previous digest")
			}
			Ai = h(Ai)
		}
		return Ai
	})
	for i := range got {
		verifrt.Assert(got[i] == want[i], "key = A_1 | A_2 | ... truncated")
	}
	verifrt.Reach("derived")
}

// c21RefBlocks is the block loop of B.2 (steps 1-7) with the computation of A_i from D | I
// delegated to hashBlock (so that the caller can tie it to the calls the code made).
func c21RefBlocks(v int, salt, password []byte, id byte, c int, hashBlock func(DI []byte, i int) []byte) []byte {
	D := make([]byte, v)
	for i := range D {
		D[i] = id
	}
	I := append(c21Fill(salt, v), c21Fill(password, v)...)
	var A []byte
	for i := 0; i < c; i++ {
		Ai := hashBlock(append(append([]byte(nil), D...), I...), i)
		A = append(A, Ai...)
		B := make([]byte, v)
		for k := range B {
			B[k] = Ai[k%len(Ai)]
		}
		for j := 0; j < len(I)/v; j++ {
			carry := uint16(1)
			for k := v - 1; k >= 0; k-- {
				s := uint16(I[j*v+k]) + uint16(B[k]) + carry
				I[j*v+k] = byte(s)
				carry = s >> 8
			}
		}
	}
	return A
}

// Verif_C21_PBKDF1: one hash block (n in {5, 8, 20}: RC2 key, IV, MAC key), r in {1,2,3}, password
// nil / empty / 1..2 characters: no big-integer step.
func Verif_C21_PBKDF1() {
	n := []int{5, 8, 20}[verifrt.Choose(0, 2)]
	c21PBKDF(0, 0, verifrt.Choose(-1, 2), verifrt.Choose(1, 3), n)
}

// Verif_C21_Fill: fillWithRepeats(pattern, 64) against RFC 7292 B.2 steps 2/3 for EVERY pattern
// length 0..130 (forked) and all pattern bytes: the result has exactly 64*ceil(len/64) bytes
// (nothing for an empty pattern; no extra block when len is a multiple of 64) and byte i is
// pattern[i mod len]. Also v = 8 with lengths 0..17.
func Verif_C21_Fill() {
	v := 64
	n := verifrt.Choose(0, 148)
	if n > 130 {
		v, n = 8, n-131
	}
	p := verifrt.Bytes(n)
	p0 := append([]byte(nil), p...)
	out := fillWithRepeats(p, v)
	want := v * ((n + v - 1) / v)
	verifrt.Assert(len(out) == want, "fill length = v * ceil(len/v)")
	if n == 0 {
		verifrt.Assert(out == nil, "empty pattern => empty string")
		verifrt.Reach("empty")
		return
	}
	for i := range out {
		verifrt.Assert(out[i] == p0[i%n], "fill byte i = pattern[i mod len]")
	}
	if n%v == 0 {
		verifrt.Reach("multiple")
	}
}

// Verif_C21_PBKDFLongSalt: pbkdf with a salt of exactly 64 and 65 symbolic bytes (first byte
// non-zero) and a nil password, one block (n = 20), r = 1: the hash input is D | S with |S| = 64
// resp. 128 (B.2 step 2 at the block-size boundary).
func Verif_C21_PBKDFLongSalt() {
	c21PBKDFSalt(0, 0, 64+verifrt.Choose(0, 1), -1, 1, 20)
}

// Verif_C21_PBKDF2Stale: two blocks (n = 24), r = 1, EMPTY password (BMP 00 00: P is all zero),
// salt with one leading zero byte, hash output with two leading zero bytes: in the I update the
// S block loses one leading zero byte and the following P block loses two or more, i.e. the
// reusable left-padding buffer of step 6C is used twice with a growing pad (stale bytes must be
// cleared).
func Verif_C21_PBKDF2Stale() { c21PBKDF(2, 1, 0, 1, 24) }

// Verif_C21_PBKDF2S: two blocks (n = 24), r = 1, nil password (I = S only: one 512-bit update).
func Verif_C21_PBKDF2S() { c21PBKDF(0, 0, -1, 1, 24) }

// Verif_C21_PBKDF2: two blocks (n = 24, the 3DES key), r = 1, password of 1 character, hash and
// salt without leading zero bytes.
func Verif_C21_PBKDF2() { c21PBKDF(0, 0, 1, 1, 24) }

// Verif_C21_PBKDF2Z: n = 24, leading zero bytes in hash output (0, 1 or 8: a whole zero word)
// and salt (0, 1), password nil / empty / 2 characters, r in {1, 2}.
func Verif_C21_PBKDF2Z() {
	hz := []int{0, 1, 8}[verifrt.Choose(0, 2)]
	c21PBKDF(hz, verifrt.Choose(0, 1), []int{-1, 0, 2}[verifrt.Choose(0, 2)], verifrt.Choose(1, 2), 24)
}

// Verif_C21_PBKDF3: three blocks (n = 41: two big-integer updates), r = 1, 1 character.
func Verif_C21_PBKDF3() { c21PBKDF(0, 0, 1, 1, 41) }

// Verif_C21_BMPDecode: decodeBMPString on EVERY byte string of length 0..7: never panics; error
// iff the length is odd; otherwise, after dropping one 00 00 terminator if present, the result is
// the UTF-16 decoding of the big-endian code units (checked code unit by code unit for strings
// whose units are all non-surrogates: then the string has exactly those runes).
func Verif_C21_BMPDecode() {
	n := verifrt.Choose(0, 7)
	b := verifrt.Bytes(n)
	var s string
	var err error
	p := verifrt.Panics(func() { s, err = decodeBMPString(b) })
	verifrt.Assert(!p, "decodeBMPString does not panic")
	if n%2 != 0 {
		verifrt.Assert(err != nil, "odd length rejected")
		verifrt.Reach("odd")
		return
	}
	verifrt.Assert(err == nil, "even length accepted")
	body := b
	if n >= 2 && b[n-1] == 0 && b[n-2] == 0 {
		body = b[:n-2]
	}
	var units []uint16
	for i := 0; i+1 < len(body); i += 2 {
		u := uint16(body[i])<<8 | uint16(body[i+1])
		verifrt.Assume(u < 0xd800 || u > 0xdfff) // surrogate handling is std unicode/utf16
		units = append(units, u)
	}
	want := string(utf16.Decode(units))
	verifrt.Assert(s == want, "decoded string = UTF-16BE code units without the terminator")
	verifrt.Reach("decoded")
}

// Verif_C21_BMPEncode: bmpString on strings of 0..3 symbolic ASCII characters: UCS-2 big-endian
// (00 ch) per character plus the 00 00 terminator, no error; and decodeBMPString inverts it for
// non-NUL characters.
func Verif_C21_BMPEncode() {
	n := verifrt.Choose(0, 3)
	raw := verifrt.Bytes(n)
	for i := range raw {
		verifrt.Assume(raw[i] < 0x80)
	}
	s := string(raw)
	out, err := bmpString(s)
	verifrt.Assert(err == nil && len(out) == 2*n+2, "ASCII strings are encodable: 2 bytes per character + terminator")
	for i := 0; i < n; i++ {
		verifrt.Assert(out[2*i] == 0 && out[2*i+1] == raw[i], "UCS-2 big-endian code unit")
	}
	verifrt.Assert(out[2*n] == 0 && out[2*n+1] == 0, "00 00 terminator")
	for i := range raw {
		verifrt.Assume(raw[i] != 0)
	}
	back, err := decodeBMPString(out)
	verifrt.Assert(err == nil && back == s, "decodeBMPString(bmpString(s)) = s")
}

// Verif_C21_BMPReject: bmpString on a concrete-length string holding one symbolic 4-byte UTF-8
// sequence (code points U+10000..U+10FFFF) is rejected: not encodable in UCS-2.
func Verif_C21_BMPReject() {
	cp := verifrt.U32()
	verifrt.Assume(cp >= 0x10000 && cp <= 0x10ffff)
	raw := []byte{byte(0xf0 | cp>>18), byte(0x80 | (cp>>12)&0x3f), byte(0x80 | (cp>>6)&0x3f), byte(0x80 | cp&0x3f)}
	_, err := bmpString("a" + string(raw))
	verifrt.Assert(err != nil, "supplementary-plane characters are rejected")
}

func c21Info(salt []byte) encryptedContentInfo {
	var alg pkix.AlgorithmIdentifier
	alg.Algorithm = oidPBEWithSHAAnd3KeyTripleDESCBC
	if !verifrt.Symbolic() {
		p, _ := asn1.Marshal(pbeParams{Salt: salt, Iterations: 1})
		alg.Parameters.FullBytes = p
	}
	return encryptedContentInfo{ContentEncryptionAlgorithm: alg}
}

// Verif_C21_Unpad: pbDecrypt on EVERY decrypted byte string of length 0, 8, 16 (and the
// non-block lengths 1, 7, 9), block size 8: never panics; error for empty or non-block-multiple
// input; otherwise accepts iff the last byte L is in 1..8 and the last L bytes all equal L, and
// then returns exactly the bytes before the padding. The cipher is stubbed in the engine (decrypts
// to the chosen bytes); natively the harness encrypts the chosen bytes with the really derived
// 3DES key so that the real pbDecrypt sees them.
func Verif_C21_Unpad() {
	n := []int{0, 8, 16, 1, 7, 9}[verifrt.Choose(0, 5)]
	pt := verifrt.Bytes(n)
	salt := []byte{1, 2, 3, 4, 5, 6, 7, 8}
	pw := []byte{0, 'p', 0, 0}
	info := c21Info(salt)
	data := make([]byte, n)
	copy(data, pt)
	if verifrt.Symbolic() {
		c21Plain = pt
	} else if n > 0 && n%8 == 0 {
		key := pbkdf(sha1Sum, 20, 64, salt, pw, 1, 1, 24)
		iv := pbkdf(sha1Sum, 20, 64, salt, pw, 1, 2, 8)
		blk, _ := des.NewTripleDESCipher(key)
		cipher.NewCBCEncrypter(blk, iv).CryptBlocks(data, pt)
	}
	info.EncryptedContent = data
	var out []byte
	var err error
	p := verifrt.Panics(func() { out, err = pbDecrypt(info, pw) })
	verifrt.Assert(!p, "pbDecrypt does not panic")
	if n == 0 || n%8 != 0 {
		verifrt.Assert(err != nil && out == nil, "empty / partial-block input rejected")
		verifrt.Reach("badlen")
		return
	}
	L := int(pt[n-1])
	ok := L >= 1 && L <= 8
	if ok {
		for i := 0; i < L; i++ {
			if pt[n-1-i] != byte(L) {
				ok = false
			}
		}
	}
	if !ok {
		verifrt.Assert(err == ErrDecryption && out == nil, "bad padding => ErrDecryption")
		verifrt.Reach("badpad")
		return
	}
	verifrt.Assert(err == nil && len(out) == n-L, "good padding accepted, padding removed")
	for i := range out {
		verifrt.Assert(out[i] == pt[i], "plaintext before the padding returned unchanged")
	}
	verifrt.Reach("unpadded")
}

// Verif_C21_VerifyMac: verifyMac with symbolic digest (0, 19, 20, 21 bytes), salt, message,
// password, iterations: unknown digest OID => NotImplementedError; iterations < 0 or > 2^20 =>
// NotImplementedError (all ints); otherwise nil iff digest == HMAC-SHA1(key, message) with key =
// pbkdf(ID 3, 20 bytes) (compared as uninterpreted-function terms), else ErrIncorrectPassword.
func Verif_C21_VerifyMac() {
	md := &macData{}
	md.Mac.Algorithm.Algorithm = oidSHA1
	variant := verifrt.Choose(0, 2)
	if variant == 1 {
		md.Mac.Algorithm.Algorithm = asn1.ObjectIdentifier{1, 3, 14, 3, 2, 27}
	}
	md.MacSalt = verifrt.Bytes(8)
	md.Mac.Digest = verifrt.Bytes([]int{20, 0, 19, 21}[verifrt.Choose(0, 3)])
	msg := verifrt.Bytes(3)
	pw := []byte{0, verifrt.U8(), 0, 0}
	if variant == 2 {
		md.Iterations = verifrt.Int()
		verifrt.Assume(md.Iterations < 0 || md.Iterations > 1<<20)
	} else {
		md.Iterations = verifrt.Choose(0, 2)
	}
	var err error
	p := verifrt.Panics(func() { err = verifyMac(md, msg, pw) })
	verifrt.Assert(!p, "verifyMac does not panic")
	if variant != 0 {
		_, ni := err.(NotImplementedError)
		verifrt.Assert(ni, "unknown digest algorithm / bad iteration count => NotImplementedError")
		verifrt.Reach("notimpl")
		return
	}
	key := c21RefPBKDF(sha1Sum, 20, 64, md.MacSalt, pw, md.Iterations, 3, 20)
	m := hmac.New(sha1.New, key)
	m.Write(msg)
	want := m.Sum(nil)
	eq := len(md.Mac.Digest) == 20
	if eq {
		var d byte
		for i := range want {
			d |= want[i] ^ md.Mac.Digest[i]
		}
		eq = d == 0
	}
	if eq {
		verifrt.Assert(err == nil, "matching MAC accepted")
		verifrt.Reach("mac-ok")
	} else {
		verifrt.Assert(err == ErrIncorrectPassword, "any other MAC => ErrIncorrectPassword")
		verifrt.Reach("mac-bad")
	}
}
