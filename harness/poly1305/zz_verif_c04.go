//go:build verif

package poly1305

import (
	"golang.org/x/crypto/internal/verifrt"

	ipoly "golang.org/x/crypto/internal/poly1305"
)

// Verif_C04_Compat: the deprecated public package golang.org/x/crypto/poly1305 is a pure
// delegation to internal/poly1305: for ALL keys and ALL messages of n1+n2 <= 16 bytes (one
// block, so that the real limb arithmetic stays cheap; the internal package itself is decided by
// the harnesses in internal/poly1305) written in two chunks, the wrapper's New/Write/Sum,
// Verify, one-shot Sum and one-shot Verify return exactly what the internal package returns on
// the same inputs, Size is 16, and Write after Sum panics.
func Verif_C04_Compat() {
	var key [32]byte
	verifrt.Fill(key[:])
	n1 := []int{0, 1, 7}[verifrt.Choose(0, 2)]
	n2 := []int{0, 1, 9}[verifrt.Choose(0, 2)]
	msg := verifrt.Bytes(n1 + n2)

	var want [16]byte
	ipoly.Sum(&want, msg, &key)

	var got [16]byte
	Sum(&got, msg, &key)
	verifrt.Assert(got == want, "compat Sum = internal Sum")

	m := New(&key)
	verifrt.Assert(m.Size() == 16 && TagSize == 16, "Size/TagSize are 16")
	a, err1 := m.Write(msg[:n1])
	b, err2 := m.Write(msg[n1:])
	verifrt.Assert(a == n1 && b == n2 && err1 == nil && err2 == nil, "Write returns (len, nil)")
	tag := m.Sum([]byte{0xAA})
	verifrt.Assert(len(tag) == 17 && tag[0] == 0xAA, "Sum appends to its argument")
	if len(tag) == 17 {
		var t [16]byte
		copy(t[:], tag[1:])
		verifrt.Assert(t == want, "compat MAC.Sum = internal tag")
		verifrt.Observe("tag", tag[1:])
	}
	verifrt.Assert(verifrt.Panics(func() { m.Write([]byte{0}) }), "Write after Sum panics")

	var exp [16]byte
	verifrt.Fill(exp[:])
	verifrt.Assert(Verify(&exp, msg, &key) == (exp == want), "compat Verify accepts exactly the internal tag")
	m2 := New(&key)
	m2.Write(msg)
	verifrt.Assert(m2.Verify(exp[:]) == (exp == want), "compat MAC.Verify accepts exactly the internal tag")
	verifrt.Assert(!New(&key).Verify(exp[:15]), "short tags are rejected")
	verifrt.Reach("compat-ok")
}
