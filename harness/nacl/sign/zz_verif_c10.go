//go:build verif

package sign

import (
	"crypto/ed25519"

	"golang.org/x/crypto/internal/verifrt"
)

// Ed25519 (std) is abstracted: Sign = UF(private key, message) with 64 output bytes, Verify = an
// uninterpreted predicate of (public key, message, signature). No relation between the two is
// assumed (Open(Sign(m)) therefore is not claimed symbolically; the native random cross-check
// runs the real functions on a real key pair).
//
//verif:stub crypto/ed25519.Sign
func c10StubSign(priv ed25519.PrivateKey, message []byte) []byte {
	if !verifrt.Symbolic() {
		return ed25519.Sign(priv, message)
	}
	verifrt.Assert(len(priv) == 64, "ed25519.Sign gets a 64-byte private key")
	return verifrt.UFBytes("ed25519sign", 64, priv, message)
}

//verif:stub crypto/ed25519.Verify
func c10StubVerify(pub ed25519.PublicKey, message, sig []byte) bool {
	if !verifrt.Symbolic() {
		return ed25519.Verify(pub, message, sig)
	}
	verifrt.Assert(len(pub) == 32, "ed25519.Verify gets a 32-byte public key")
	return verifrt.UFBytes("ed25519verify", 1, pub, message, sig)[0]&1 == 1
}

func c10Out(pl, sc int) []byte { return verifrt.Bytes(pl + sc)[:pl] }

// Verif_C10_Sign: sign.Sign(out, m, sk) = out || Ed25519-Sign(sk, m) (64 bytes) || m
// (crypto_sign layout) for all keys and messages of every length 0..40 and 150, out = nil /
// 3-byte prefix with and without spare capacity; message and key unchanged.
func Verif_C10_Sign() {
	n := verifrt.Choose(0, 41)
	if n == 41 {
		n = 150
	}
	var sk [64]byte
	copy(sk[:], verifrt.Bytes(64))
	sk0 := sk
	m := verifrt.Bytes(n)
	m0 := append([]byte{}, m...)
	pl := 0
	var out []byte
	switch verifrt.Choose(0, 2) {
	case 1:
		out, pl = c10Out(3, 0), 3
	case 2:
		out, pl = c10Out(3, 300), 3
	}
	prefix := append([]byte{}, out...)
	var got []byte
	p := verifrt.Panics(func() { got = Sign(out, m, &sk) })
	verifrt.Assert(!p, "Sign does not panic on non-overlapping buffers")
	sig := ed25519.Sign(ed25519.PrivateKey(sk0[:]), m0)
	verifrt.Assert(len(got) == pl+Overhead+n && Overhead == 64, "len = len(out) + 64 + len(m)")
	for i := 0; i < pl; i++ {
		verifrt.Assert(got[i] == prefix[i], "appends to out")
	}
	for i := 0; i < 64; i++ {
		verifrt.Assert(got[pl+i] == sig[i], "signature first (64 bytes)")
	}
	for i := 0; i < n; i++ {
		verifrt.Assert(got[pl+64+i] == m0[i], "then the message")
		verifrt.Assert(m[i] == m0[i], "message not modified")
	}
	for i := range sk {
		verifrt.Assert(sk[i] == sk0[i], "key not modified")
	}
	verifrt.Reach("sign-ok")
}

// Verif_C10_SignOpen: sign.Open(out, sm, pk) on ARBITRARY signed messages of every length 0..70
// and 200: rejects len < 64 (without calling Verify); otherwise accepts exactly when
// Ed25519-Verify(pk, sm[64:], sm[0:64]) and then returns out || sm[64:]; (nil, false) on
// failure; sm unchanged.
func Verif_C10_SignOpen() {
	sl := verifrt.Choose(0, 71)
	if sl == 71 {
		sl = 200
	}
	var pk [32]byte
	copy(pk[:], verifrt.Bytes(32))
	sm := verifrt.Bytes(sl)
	sm0 := append([]byte{}, sm...)
	pl := 0
	var out []byte
	if verifrt.Choose(0, 1) == 1 {
		out, pl = c10Out(3, 300), 3
	}
	prefix := append([]byte{}, out...)
	var got []byte
	var ok bool
	p := verifrt.Panics(func() { got, ok = Open(out, sm, &pk) })
	verifrt.Assert(!p, "Open does not panic on non-overlapping buffers")
	if sl < 64 {
		verifrt.Assert(!ok && got == nil, "shorter than a signature is rejected")
		verifrt.Reach("open-short")
		return
	}
	want := ed25519.Verify(ed25519.PublicKey(pk[:]), sm0[64:], sm0[:64])
	verifrt.Assert(ok == want, "accepts iff Ed25519 verifies sm[0:64] over sm[64:]")
	if !ok {
		verifrt.Assert(got == nil, "nil on failure")
		verifrt.Reach("open-reject")
	} else {
		verifrt.Assert(len(got) == pl+sl-64, "len = len(out) + len(sm) - 64")
		for i := 0; i < pl; i++ {
			verifrt.Assert(got[i] == prefix[i], "appends to out")
		}
		for i := 64; i < sl; i++ {
			verifrt.Assert(got[pl+i-64] == sm0[i], "returns exactly the message part")
		}
		verifrt.Reach("open-accept")
	}
	for i := range sm {
		verifrt.Assert(sm[i] == sm0[i], "signed message not modified")
	}
}

// Verif_C10_SignOverlap: Sign panics when out's spare capacity overlaps the message; Open panics
// when out overlaps the signed message (the documented rule), including the tempting
// Open(sm[:0], sm, pk); nothing is written before the panic.
func Verif_C10_SignOverlap() {
	buf := verifrt.Bytes(200)
	saved := append([]byte{}, buf...)
	off := []int{0, 1, 64, 70}[verifrt.Choose(0, 3)]
	var sk [64]byte
	copy(sk[:], verifrt.Bytes(64))
	var pk [32]byte
	copy(pk[:], verifrt.Bytes(32))
	if verifrt.Choose(0, 1) == 0 {
		// Sign writes buf[0:64+20]
		p := verifrt.Panics(func() { Sign(buf[:0], buf[off:off+20], &sk) })
		verifrt.Assert(p, "Sign: overlapping out/message panics")
	} else {
		// Open would write buf[0:16] from sm = buf[off':off'+80]; only reached when Verify accepts
		o := []int{0, 1, 15}[verifrt.Choose(0, 2)]
		var ok bool
		p := verifrt.Panics(func() { _, ok = Open(buf[:0], buf[o:o+80], &pk) })
		if !p {
			verifrt.Assert(!ok, "Open: overlapping out/signedMessage panics once the signature verifies")
			verifrt.Reach("overlap-open-reject")
		} else {
			verifrt.Reach("overlap-open-panic")
		}
	}
	for i := range buf {
		verifrt.Assert(buf[i] == saved[i], "nothing written before the overlap panic")
	}
}
