//go:build verif

package sign

import (
	"crypto/ed25519"

	"golang.org/x/crypto/internal/verifrt"
)

// C53 for nacl/sign. Doc comments: Sign "appends a signed copy of message to out, which will
// be Overhead bytes longer than the original and must not overlap it"; Open "appends the
// message to out, which must not overlap the signed message". Expectation asserted: the call
// panics iff the appended region of out's backing array intersects the input (ANY overlap),
// before anything is written; otherwise result = separate-buffer result, out prefix kept,
// nothing outside the appended region changes. Ed25519 Sign / Verify are the uninterpreted
// functions of zz_verif_c10.go (owner: C10); in the Open harness the UF verdict for the
// honestly signed message is assumed true (natively a real key pair is used and the real
// functions run).

const c53M = 70

func c53Keys() (*[32]byte, *[64]byte) {
	var priv [64]byte
	var pub [32]byte
	if verifrt.Symbolic() {
		verifrt.Fill(priv[:])
		copy(pub[:], priv[32:])
	} else {
		// natively a real key pair derived from 32 replayed/random seed bytes
		k := ed25519.NewKeyFromSeed(verifrt.Bytes(32))
		copy(priv[:], k)
		copy(pub[:], k[32:])
		verifrt.Bytes(32) // keep the symbol count equal to the engine's 64
	}
	return &pub, &priv
}

// c53Sign: message = a[M : M+n], out = a[M+s-prefix : M+s], appended region [M+s, M+s+64+n).
func c53Sign(n, s, prefix int) {
	M := c53M
	_, priv := c53Keys()
	a := verifrt.Bytes(M + n + Overhead + M)
	a0 := append([]byte{}, a...)
	want := Sign(nil, a0[M:M+n], priv)
	var ret []byte
	panicked := verifrt.Panics(func() { ret = Sign(a[M+s-prefix:M+s], a[M:M+n], priv) })
	inter := n > 0 && s < n && s > -(n+Overhead)
	verifrt.Assert(panicked == inter, "Sign panics iff the appended region overlaps message")
	if panicked {
		for i := range a {
			verifrt.Assert(a[i] == a0[i], "Sign: nothing written before the overlap panic")
		}
		verifrt.Reach("sign-panic")
		return
	}
	verifrt.Assert(len(ret) == prefix+n+Overhead && &ret[0] == &a[M+s-prefix], "Sign: result in out's capacity")
	for i := range want {
		verifrt.Assert(ret[prefix+i] == want[i], "Sign: same-array buffers give the separate-buffer result")
	}
	for i := range a {
		if i < M+s || i >= M+s+n+Overhead {
			verifrt.Assert(a[i] == a0[i], "Sign: bytes outside the appended region unchanged")
		}
	}
	verifrt.Reach("sign-ok")
}

// c53Open: signed = a[M : M+64+n] valid, out = a[M+s-prefix : M+s], appended region [M+s, M+s+n).
func c53Open(n, s, prefix int) {
	M := c53M
	pub, priv := c53Keys()
	msg := verifrt.Bytes(n)
	a := verifrt.Bytes(M + n + Overhead + M)
	copy(a[M:], Sign(nil, msg, priv))
	a0 := append([]byte{}, a...)
	if verifrt.Symbolic() {
		// the honest signature verifies (same UF application as c10StubVerify)
		v := verifrt.UFBytes("ed25519verify", 1, pub[:], a0[M+Overhead:M+Overhead+n], a0[M:M+Overhead])
		verifrt.Assume(v[0]&1 == 1)
	}
	var ret []byte
	var ok bool
	panicked := verifrt.Panics(func() { ret, ok = Open(a[M+s-prefix:M+s], a[M:M+n+Overhead], pub) })
	inter := n > 0 && s < n+Overhead && s > -n
	verifrt.Assert(panicked == inter, "Open panics iff the appended region overlaps the signed message")
	if panicked {
		for i := range a {
			verifrt.Assert(a[i] == a0[i], "Open: nothing written before the overlap panic")
		}
		verifrt.Reach("open-panic")
		return
	}
	verifrt.Assert(ok && len(ret) == prefix+n, "Open: valid signed message accepted")
	for i := 0; i < n && prefix+i < len(ret); i++ {
		verifrt.Assert(ret[prefix+i] == msg[i], "Open: same-array buffers give the separate-buffer result")
	}
	for i := range a {
		if i < M+s || i >= M+s+n {
			verifrt.Assert(a[i] == a0[i], "Open: bytes outside the appended region unchanged")
		}
	}
	verifrt.Reach("open-ok")
}

// c53Shift: the shifts around every boundary of the two predicates (-68..-60, -8..8, 60..70);
// thorough (SignT / SignOpenT): every shift -68..70.
func c53Shift() int {
	k := verifrt.Choose(0, 36)
	switch {
	case k < 9:
		return -68 + k
	case k < 26:
		return -8 + (k - 9)
	}
	return 60 + (k - 26)
}

// Verif_C53_Sign / Verif_C53_SignOpen: |message| in {0,1,5}, 2-byte out prefix.
func Verif_C53_Sign() {
	n := []int{0, 1, 5}[verifrt.Choose(0, 2)]
	c53Sign(n, c53Shift(), 2)
}

func Verif_C53_SignOpen() {
	n := []int{0, 1, 5}[verifrt.Choose(0, 2)]
	c53Open(n, c53Shift(), 2)
}

func Verif_C53_SignT() {
	n := []int{0, 1, 5}[verifrt.Choose(0, 2)]
	c53Sign(n, verifrt.Choose(-68, c53M), 2)
}

func Verif_C53_SignOpenT() {
	n := []int{0, 1, 5}[verifrt.Choose(0, 2)]
	c53Open(n, verifrt.Choose(-68, c53M), 2)
}
