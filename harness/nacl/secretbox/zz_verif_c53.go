//go:build verif

package secretbox

import (
	"golang.org/x/crypto/internal/verifrt"
)

// C53 for nacl/secretbox. Doc comments: Seal "appends ... to out, which must not overlap
// message"; Open "appends the message to out, which must not overlap box". The guards test
// the region the result is appended into (out's spare capacity when it suffices), so the
// expectation asserted here is: the call panics iff the appended region [len(out),
// len(out)+n) of out's backing array intersects the input (ANY overlap, exact included), and
// nothing has been written at that point; otherwise the result equals the separate-buffer
// result, lies in out's capacity, out's prefix is preserved and no byte outside the appended
// region changes. When the capacity does not suffice a new array is allocated: no panic,
// the shared buffer is untouched. HSalsa20 / Salsa20 block / Poly1305 are the uninterpreted
// functions of zz_verif_c02.go (only buffer handling is the subject); all keys, nonces and
// buffer contents symbolic; the real alias.AnyOverlap runs on the engine's address model.

const c53M = 20

// c53SealBox: message = a[M : M+n]; out = a[M+s-prefix : M+s] (capacity to the end of a, or
// cut one byte short of what is needed when short is set).
func c53SealBox(n, s, prefix int, short bool) {
	vIdeal = false
	M := c53M
	key, nonce := vArr32(), vArr24()
	a := verifrt.Bytes(M + n + Overhead + M)
	a0 := append([]byte{}, a...)
	msg := a[M : M+n]
	out := a[M+s-prefix : M+s]
	if short {
		out = a[M+s-prefix : M+s : M+s+n+Overhead-1]
	}
	want := Seal(nil, a0[M:M+n], nonce, key)
	var ret []byte
	panicked := verifrt.Panics(func() { ret = Seal(out, msg, nonce, key) })
	inter := !short && n > 0 && s < n && s > -(n+Overhead)
	verifrt.Assert(panicked == inter, "Seal panics iff the appended region overlaps message")
	if panicked {
		for i := range a {
			verifrt.Assert(a[i] == a0[i], "Seal: nothing written before the overlap panic")
		}
		verifrt.Reach("seal-panic")
		return
	}
	verifrt.Assert(len(ret) == prefix+n+Overhead, "Seal: result length")
	for i := 0; i < prefix; i++ {
		verifrt.Assert(ret[i] == a0[M+s-prefix+i], "Seal: out prefix preserved")
	}
	for i := range want {
		verifrt.Assert(ret[prefix+i] == want[i], "Seal: same-array buffers give the separate-buffer result")
	}
	if short {
		for i := range a {
			verifrt.Assert(a[i] == a0[i], "Seal: shared buffer untouched when reallocating")
		}
		verifrt.Reach("seal-realloc")
		return
	}
	verifrt.Assert(&ret[0] == &a[M+s-prefix], "Seal: result is in out's capacity")
	for i := range a {
		if i < M+s || i >= M+s+n+Overhead {
			verifrt.Assert(a[i] == a0[i], "Seal: bytes outside the appended region unchanged")
		}
	}
	verifrt.Reach("seal-ok")
}

// c53OpenBox: box = a[M : M+n+16] is a valid box; out = a[M+s-prefix : M+s].
func c53OpenBox(n, s, prefix int) {
	vIdeal = false
	M := c53M
	key, nonce, msg := vArr32(), vArr24(), verifrt.Bytes(n)
	a := verifrt.Bytes(M + n + Overhead + M)
	copy(a[M:], Seal(nil, msg, nonce, key))
	a0 := append([]byte{}, a...)
	box := a[M : M+n+Overhead]
	out := a[M+s-prefix : M+s]
	var ret []byte
	var ok bool
	panicked := verifrt.Panics(func() { ret, ok = Open(out, box, nonce, key) })
	inter := n > 0 && s < n+Overhead && s > -n
	verifrt.Assert(panicked == inter, "Open panics iff the appended region overlaps box")
	if panicked {
		for i := range a {
			verifrt.Assert(a[i] == a0[i], "Open: nothing written before the overlap panic")
		}
		verifrt.Reach("open-panic")
		return
	}
	verifrt.Assert(ok && len(ret) == prefix+n, "Open: valid box accepted")
	for i := 0; i < prefix && i < len(ret); i++ {
		verifrt.Assert(ret[i] == a0[M+s-prefix+i], "Open: out prefix preserved")
	}
	for i := 0; i < n && prefix+i < len(ret); i++ {
		verifrt.Assert(ret[prefix+i] == msg[i], "Open: same-array buffers give the separate-buffer result")
	}
	for i := range a {
		if i < M+s || i >= M+s+n {
			verifrt.Assert(a[i] == a0[i], "Open: bytes outside the appended region unchanged")
		}
	}
	verifrt.Reach("open-ok")
}

// Verif_C53_SecretboxSeal: |message| in {0,1,33}, out prefix length in {0,2}, every shift of
// the appended region against message from -18 to 20; plus the reallocating case.
func Verif_C53_SecretboxSeal() {
	n := []int{0, 1, 33}[verifrt.Choose(0, 2)]
	prefix := verifrt.Choose(0, 1) * 2
	s := verifrt.Choose(-18, c53M)
	c53SealBox(n, s, prefix, false)
}

// Verif_C53_SecretboxSealRealloc: capacity one byte short: never panics, shared buffer
// untouched; |message| in {1,33}, shifts -18..20 step over all values.
func Verif_C53_SecretboxSealRealloc() {
	n := []int{1, 33}[verifrt.Choose(0, 1)]
	c53SealBox(n, verifrt.Choose(-18, c53M), 2, true)
}

// Verif_C53_SecretboxOpen: |message| in {0,1,33}, prefix in {0,2}, shifts -18..20.
func Verif_C53_SecretboxOpen() {
	n := []int{0, 1, 33}[verifrt.Choose(0, 2)]
	prefix := verifrt.Choose(0, 1) * 2
	c53OpenBox(n, verifrt.Choose(-18, c53M), prefix)
}
