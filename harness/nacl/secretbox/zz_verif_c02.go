//go:build verif

package secretbox

import (
	"golang.org/x/crypto/internal/poly1305"
	"golang.org/x/crypto/internal/verifrt"
	"golang.org/x/crypto/salsa20/salsa"
)

// Abstractions (engine only; natively the real functions run):
//   - salsa.HSalsa20 and the Salsa20 keystream block are uninterpreted functions (PRF),
//   - poly1305.Sum / poly1305.Verify: vIdeal = true: ideal one-time MAC (Verify accepts exactly
//     the (key, message, tag) triple the last Sum produced); vIdeal = false: UF of (key, msg).
var (
	vIdeal   bool
	vLogHave bool
	vLogKey  [32]byte
	vLogMsg  []byte
	vLogTag  [16]byte
)

func vMAC(key *[32]byte, m []byte) (t [16]byte) {
	if verifrt.Symbolic() {
		copy(t[:], verifrt.UFBytes("poly1305", 16, key[:], m))
		return
	}
	poly1305.Sum(&t, m, key)
	return
}

// stubSum: C02 stub of internal/poly1305.Sum (registered through zz_verif_stubs.go, mode vC02).
func stubSum(out *[16]byte, m []byte, key *[32]byte) {
	if !verifrt.Symbolic() {
		poly1305.Sum(out, m, key)
		return
	}
	*out = vMAC(key, m)
	vLogHave, vLogKey, vLogTag = true, *key, *out
	vLogMsg = append([]byte{}, m...)
}

// stubVerify: C02 stub of internal/poly1305.Verify (registered through zz_verif_stubs.go).
func stubVerify(mac *[16]byte, m []byte, key *[32]byte) bool {
	if !verifrt.Symbolic() {
		return poly1305.Verify(mac, m, key)
	}
	var d byte
	if vIdeal {
		if !vLogHave || len(m) != len(vLogMsg) {
			return false
		}
		for i := range key {
			d |= key[i] ^ vLogKey[i]
		}
		for i := range m {
			d |= m[i] ^ vLogMsg[i]
		}
		for i := range mac {
			d |= mac[i] ^ vLogTag[i]
		}
		return d == 0
	}
	t := vMAC(key, m)
	for i := range t {
		d |= t[i] ^ mac[i]
	}
	return d == 0
}

func vHSalsa(in *[16]byte, k *[32]byte, c *[16]byte) (out [32]byte) {
	if verifrt.Symbolic() {
		copy(out[:], verifrt.UFBytes("hsalsa20", 32, in[:], k[:], c[:]))
		return
	}
	salsa.HSalsa20(&out, in, k, c)
	return
}

// stubHSalsa: C02 stub of salsa.HSalsa20 (registered through zz_verif_stubs.go).
func stubHSalsa(out *[32]byte, in *[16]byte, k *[32]byte, c *[16]byte) {
	if !verifrt.Symbolic() {
		salsa.HSalsa20(out, in, k, c)
		return
	}
	*out = vHSalsa(in, k, c)
}

// vStream is the Salsa20 keystream for (key, 16-byte counter block): n bytes, the 64-bit
// little-endian block counter in counter[8:16] is incremented per 64-byte block.
func vStream(n int, counter *[16]byte, key *[32]byte) []byte {
	if !verifrt.Symbolic() {
		out := make([]byte, n)
		salsa.XORKeyStream(out, out, counter, key)
		return out
	}
	ctr := *counter
	var out []byte
	for len(out) < n {
		out = append(out, verifrt.UFBytes("salsa20block", 64, key[:], ctr[:])...)
		u := uint32(1)
		for i := 8; i < 16; i++ {
			u += uint32(ctr[i])
			ctr[i] = byte(u)
			u >>= 8
		}
	}
	return out[:n]
}

// stubXOR: C02 stub of salsa.XORKeyStream (registered through zz_verif_stubs.go).
func stubXOR(out, in []byte, counter *[16]byte, key *[32]byte) {
	if !verifrt.Symbolic() {
		salsa.XORKeyStream(out, in, counter, key)
		return
	}
	ks := vStream(len(in), counter, key)
	for i := range in {
		out[i] = in[i] ^ ks[i]
	}
}

// vKeys is the reference derivation of NaCl secretbox (XSalsa20-Poly1305): subkey =
// HSalsa20(nonce[0:16], key, sigma); first block = Salsa20(subkey, nonce[16:24] | counter 0);
// Poly1305 key = first 32 bytes; message keystream = bytes 32.. of the stream.
func vKeys(nonce *[24]byte, key *[32]byte, n int) (pk [32]byte, ks []byte) {
	var in [16]byte
	copy(in[:], nonce[:16])
	sub := vHSalsa(&in, key, &salsa.Sigma)
	var ctr [16]byte
	copy(ctr[:], nonce[16:])
	s := vStream(32+n, &ctr, &sub)
	copy(pk[:], s[:32])
	return pk, s[32:]
}

func vDiff(a, b []byte) byte {
	var d byte
	for i := range a {
		d |= a[i] ^ b[i]
	}
	return d
}

func vArr24() *[24]byte { var a [24]byte; verifrt.Fill(a[:]); return &a }
func vArr32() *[32]byte { var a [32]byte; verifrt.Fill(a[:]); return &a }

// c02Forge: honest Seal(msg) under (key, nonce), then Open of ANY (key2, nonce2, box2) of
// length nBox2 that differs somewhere from the sealed values (box2 = resized sealed box XOR
// symbolic delta). Assumed: ideal one-time MAC; PRF (distinct (key, nonce) give distinct
// Poly1305 keys). Obligation: Open returns (nil, false), does not panic, and writes nothing
// into out's spare capacity (the tag is verified before decryption starts).
func c02Forge(nMsg, nBox2 int) {
	vC02 = true // C02 abstractions (zz_verif_stubs.go)
	vIdeal, vLogHave = true, false
	key, nonce, msg := vArr32(), vArr24(), verifrt.Bytes(nMsg)
	sealed := Seal(nil, msg, nonce, key)
	verifrt.Assert(len(sealed) == nMsg+Overhead, "Seal output length")
	key2, nonce2, box2 := vArr32(), vArr24(), verifrt.Bytes(nBox2)
	for i := 0; i < nBox2 && i < len(sealed); i++ {
		box2[i] ^= sealed[i]
	}
	d := vDiff(key[:], key2[:]) | vDiff(nonce[:], nonce2[:])
	if nBox2 == len(sealed) {
		verifrt.Assume(d|vDiff(sealed, box2) != 0)
	}
	pk, _ := vKeys(nonce, key, 0)
	pk2, _ := vKeys(nonce2, key2, 0)
	verifrt.Assume(vDiff(pk[:], pk2[:]) != 0 || d == 0) // PRF
	spare := verifrt.Bytes(2 + nBox2)
	spare0 := append([]byte{}, spare...)
	var got []byte
	var ok bool
	p := verifrt.Panics(func() { got, ok = Open(spare[:2], box2, nonce2, key2) })
	verifrt.Assert(!p, "Open does not panic")
	verifrt.Assert(!ok, "Open rejects every box that differs from the sealed one")
	verifrt.Assert(got == nil, "no plaintext returned on failure")
	for i := range spare {
		verifrt.Assert(spare[i] == spare0[i], "out (incl. spare capacity) untouched on failure")
	}
	verifrt.Reach("rejected")
}

// Verif_C02_SecretboxForge: |msg| in {0,1,31,32,33,97}; forged box length: same, -1, +1, 15, 0.
func Verif_C02_SecretboxForge() {
	n := []int{0, 1, 31, 32, 33, 97}[verifrt.Choose(0, 5)]
	nb := []int{n + 16, n + 15, n + 17, 15, 0}[verifrt.Choose(0, 4)]
	c02Forge(n, nb)
}

// Verif_C02_SecretboxOpenIff: for ALL (key, nonce, ct, tag): Open succeeds iff tag =
// MAC(poly key of the reference derivation, ct) (tag = reference tag XOR symbolic delta);
// on success the result is out | ct XOR keystream (bytes 32.. of the XSalsa20 stream); on
// failure (nil, false) and nothing written. |ct| in {0,1,31,32,33,97}.
func Verif_C02_SecretboxOpenIff() {
	vC02 = true // C02 abstractions (zz_verif_stubs.go)
	vIdeal = false
	n := []int{0, 1, 31, 32, 33, 97}[verifrt.Choose(0, 5)]
	key, nonce := vArr32(), vArr24()
	box := verifrt.Bytes(16 + n)
	pk, ks := vKeys(nonce, key, n)
	want := vMAC(&pk, box[16:])
	var delta byte
	for i := 0; i < 16; i++ {
		delta |= box[i]
		box[i] ^= want[i]
	}
	spare := verifrt.Bytes(2 + n)
	spare0 := append([]byte{}, spare...)
	got, ok := Open(spare[:2], box, nonce, key)
	verifrt.Assert(delta != 0 || ok, "Open accepts the correct tag")
	verifrt.Assert(delta == 0 || !ok, "Open rejects every other tag")
	if ok {
		verifrt.Assert(len(got) == 2+n && &got[0] == &spare[0], "result appended in place")
		for i := 0; i < n && 2+i < len(got); i++ {
			verifrt.Assert(got[2+i] == box[16+i]^ks[i], "plaintext = ct XOR XSalsa20 keystream from byte 32")
		}
		verifrt.Reach("accept")
		return
	}
	verifrt.Assert(got == nil, "no plaintext returned on failure")
	for i := range spare {
		verifrt.Assert(spare[i] == spare0[i], "out untouched on failure")
	}
	verifrt.Reach("reject")
}
