//go:build verif

package secretbox

import (
	"golang.org/x/crypto/internal/poly1305"
	"golang.org/x/crypto/internal/verifrt"
	"golang.org/x/crypto/salsa20/salsa"
)

// Single registration point of the engine stubs of this package. Two properties have harnesses
// here and abstract the same four functions differently:
//
//   - C02 (zz_verif_c02.go): Poly1305 as an ideal one-time MAC (vIdeal) or an uninterpreted
//     function, Salsa20 / HSalsa20 always uninterpreted;
//   - C10 (zz_verif_c10.go): Poly1305 uninterpreted, Salsa20 / HSalsa20 real unless
//     c10AbstractSalsa.
//
// The engine takes one stub per target (two annotations for one target are a load error), so the
// annotated functions below dispatch on vC02, which the C02 harnesses set first thing; every
// other harness gets the C10 behaviour. The engine lets only the registered stub itself call
// through to the real function, so the "real function" cases are decided here and the
// per-property functions are entered for their abstract branches only. Natively none of this
// runs (the real functions do).
var vC02 bool

//verif:stub golang.org/x/crypto/internal/poly1305.Sum
func stubsPolySum(out *[16]byte, m []byte, key *[32]byte) {
	switch {
	case !verifrt.Symbolic():
		poly1305.Sum(out, m, key)
	case vC02:
		stubSum(out, m, key)
	default:
		c10StubPolySum(out, m, key)
	}
}

//verif:stub golang.org/x/crypto/internal/poly1305.Verify
func stubsPolyVerify(mac *[16]byte, m []byte, key *[32]byte) bool {
	switch {
	case !verifrt.Symbolic():
		return poly1305.Verify(mac, m, key)
	case vC02:
		return stubVerify(mac, m, key)
	default:
		return c10StubPolyVerify(mac, m, key)
	}
}

//verif:stub golang.org/x/crypto/salsa20/salsa.HSalsa20
func stubsHSalsa20(out *[32]byte, in *[16]byte, k *[32]byte, c *[16]byte) {
	switch {
	case !verifrt.Symbolic():
		salsa.HSalsa20(out, in, k, c)
	case vC02:
		stubHSalsa(out, in, k, c)
	case c10AbstractSalsa:
		c10StubHSalsa20(out, in, k, c)
	default:
		salsa.HSalsa20(out, in, k, c)
	}
}

//verif:stub golang.org/x/crypto/salsa20/salsa.XORKeyStream
func stubsXORKeyStream(out, in []byte, counter *[16]byte, key *[32]byte) {
	switch {
	case !verifrt.Symbolic():
		salsa.XORKeyStream(out, in, counter, key)
	case vC02:
		stubXOR(out, in, counter, key)
	case c10AbstractSalsa:
		c10StubXORKeyStream(out, in, counter, key)
	default:
		salsa.XORKeyStream(out, in, counter, key)
	}
}
