//go:build verif

package secretbox

import (
	"crypto/subtle"

	"golang.org/x/crypto/internal/poly1305"
	"golang.org/x/crypto/internal/verifrt"
	"golang.org/x/crypto/salsa20"
	"golang.org/x/crypto/salsa20/salsa"
)

// Poly1305 is an uninterpreted function of (key, message) here (its arithmetic is the subject of
// C04); natively the real function runs.
// Stub of internal/poly1305.Sum, registered through zz_verif_stubs.go (shared with C02).
func c10StubPolySum(out *[16]byte, m []byte, key *[32]byte) {
	if !verifrt.Symbolic() {
		poly1305.Sum(out, m, key)
		return
	}
	copy(out[:], verifrt.UFBytes("poly1305", 16, key[:], m))
}

// Stub of internal/poly1305.Verify, registered through zz_verif_stubs.go.
func c10StubPolyVerify(mac *[16]byte, m []byte, key *[32]byte) bool {
	if !verifrt.Symbolic() {
		return poly1305.Verify(mac, m, key)
	}
	t := verifrt.UFBytes("poly1305", 16, key[:], m)
	return subtle.ConstantTimeCompare(t, mac[:]) == 1
}

// c10AbstractSalsa (set by the harnesses whose path conditions depend on keystream bytes, i.e.
// the ones that branch on tag verification) replaces the two salsa entry points by their C09
// characterisation over an uninterpreted core: HSalsa20 = UF(in, key, const); XORKeyStream(out,
// in, counter, key) = in XOR blocks UF(counter[0:8] || LE64(LE64(counter[8:16]) + b), key),
// b = 0, 1, ... Otherwise (and natively) the real functions run.
var c10AbstractSalsa bool

// Stub of salsa.HSalsa20 (abstract branch), registered through zz_verif_stubs.go.
func c10StubHSalsa20(out *[32]byte, in *[16]byte, k *[32]byte, c *[16]byte) {
	if !verifrt.Symbolic() || !c10AbstractSalsa {
		salsa.HSalsa20(out, in, k, c)
		return
	}
	copy(out[:], verifrt.UFBytes("hsalsa20", 32, in[:], k[:], c[:]))
}

// Stub of salsa.XORKeyStream (abstract branch), registered through zz_verif_stubs.go.
func c10StubXORKeyStream(out, in []byte, counter *[16]byte, key *[32]byte) {
	if !verifrt.Symbolic() || !c10AbstractSalsa {
		salsa.XORKeyStream(out, in, counter, key)
		return
	}
	var ctr uint64
	for i := 0; i < 8; i++ {
		ctr |= uint64(counter[8+i]) << (8 * uint(i))
	}
	for b := 0; 64*b < len(in); b++ {
		blockIn := append([]byte{}, counter[:8]...)
		for i := 0; i < 8; i++ {
			blockIn = append(blockIn, byte((ctr+uint64(b))>>(8*uint(i))))
		}
		ks := verifrt.UFBytes("salsa20block", 64, blockIn, key[:])
		for i := 64 * b; i < len(in) && i < 64*b+64; i++ {
			out[i] = in[i] ^ ks[i-64*b]
		}
	}
}

// c10RefSeal is crypto_secretbox_xsalsa20poly1305 written from the NaCl definition
// (nacl.cr.yp.to/secretbox.html, "Cryptography in NaCl" section 9) in libsodium's "easy" layout:
//
//	c' = XSalsa20-xor(key, nonce, 0^32 || m)        (stream from block counter 0)
//	polykey = c'[0:32], c = c'[32:], tag = Poly1305(polykey, c), box = tag || c
//
// XSalsa20 is salsa20.XORKeyStream with a 24-byte nonce, which C09 decides equal to the XSalsa20
// specification (HSalsa20 subkey from nonce[0:16], Salsa20 with nonce[16:24], counter 0).
func c10RefSeal(m []byte, nonce *[24]byte, key *[32]byte) []byte {
	padded := make([]byte, 32+len(m))
	copy(padded[32:], m)
	k := *key
	salsa20.XORKeyStream(padded, padded, nonce[:], &k)
	var polyKey [32]byte
	copy(polyKey[:], padded[:32])
	c := padded[32:]
	var tag [16]byte
	poly1305.Sum(&tag, c, &polyKey)
	return append(append([]byte{}, tag[:]...), c...)
}

// c10RefOpen inverts it: ok iff Poly1305(polykey, c) == tag; m = c xor stream[32:].
func c10RefOpen(box []byte, nonce *[24]byte, key *[32]byte) ([]byte, bool) {
	if len(box) < 16 {
		return nil, false
	}
	c := box[16:]
	padded := make([]byte, 32+len(c))
	k := *key
	stream := make([]byte, 32+len(c))
	salsa20.XORKeyStream(stream, padded, nonce[:], &k)
	var polyKey [32]byte
	copy(polyKey[:], stream[:32])
	var tag [16]byte
	poly1305.Sum(&tag, c, &polyKey)
	if subtle.ConstantTimeCompare(tag[:], box[:16]) != 1 {
		return nil, false
	}
	m := make([]byte, len(c))
	for i := range c {
		m[i] = c[i] ^ stream[32+i]
	}
	return m, true
}

func c10Arr24(b []byte) (a [24]byte) { copy(a[:], b); return }
func c10Arr32(b []byte) (a [32]byte) { copy(a[:], b); return }

// c10Out builds the `out` argument: a prefix of pl symbolic bytes with spare capacity sc.
func c10Out(pl, sc int) []byte {
	buf := verifrt.Bytes(pl + sc)
	return buf[:pl]
}

func c10Seal(n, pl, sc int, abstractSalsa bool) {
	c10AbstractSalsa = abstractSalsa
	nonce := c10Arr24(verifrt.Bytes(24))
	key := c10Arr32(verifrt.Bytes(32))
	n0, k0 := nonce, key
	m := verifrt.Bytes(n)
	m0 := append([]byte{}, m...)
	out := c10Out(pl, sc)
	prefix := append([]byte{}, out...)
	var ret []byte
	p := verifrt.Panics(func() { ret = Seal(out, m, &nonce, &key) })
	verifrt.Assert(!p, "Seal does not panic on non-overlapping buffers")
	ref := c10RefSeal(m0, &n0, &k0)
	verifrt.Assert(len(ret) == pl+Overhead+n && Overhead == 16, "len = len(out) + 16 + len(message)")
	for i := 0; i < pl; i++ {
		verifrt.Assert(ret[i] == prefix[i], "Seal appends to out")
	}
	for i := range ref {
		verifrt.Assert(ret[pl+i] == ref[i], "Seal = tag(16) || ciphertext of the NaCl secretbox definition")
	}
	if sc >= Overhead+n && pl+sc > 0 {
		out = out[:pl+1]
		ret[pl] ^= 0xff
		verifrt.Assert(out[pl] == ret[pl], "Seal reuses out's spare capacity")
		ret[pl] ^= 0xff
	}
	for i := range m {
		verifrt.Assert(m[i] == m0[i], "message not modified")
	}
	for i := range key {
		verifrt.Assert(key[i] == k0[i], "key not modified")
	}
	for i := range nonce {
		verifrt.Assert(nonce[i] == n0[i], "nonce not modified")
	}
	// Open inverts Seal (tag compare of identical terms)
	back, ok := Open(nil, ret[pl:], &nonce, &key)
	verifrt.Assert(ok && len(back) == n, "Open accepts Seal's output")
	for i := range back {
		verifrt.Assert(back[i] == m0[i], "Open(Seal(m)) = m")
	}
	verifrt.Observe("box", ret)
	verifrt.Reach("seal-ok")
}

// Verif_C10_Seal: secretbox.Seal for ALL keys, nonces and messages of length
// {0,1,31,32,33,64,95,96,97,130} (around the 32-byte first-block split and the 64-byte block
// boundaries of the continuation stream), out = nil / 3-byte prefix without / with enough spare
// capacity: output = prefix || tag || c of the NaCl definition; Open(Seal(m)) = m.
// Salsa is abstracted to its C09 characterisation (uninterpreted core per block) so that a
// deviation shows up as a solver-easy UF disequality instead of a 20-round ARX one.
func Verif_C10_Seal() {
	n := []int{0, 1, 31, 32, 33, 64, 95, 96, 97, 130}[verifrt.Choose(0, 9)]
	switch verifrt.Choose(0, 2) {
	case 0:
		c10Seal(n, 0, 0, true)
	case 1:
		c10Seal(n, 3, 5, true)
	default:
		c10Seal(n, 3, 16+n+2, true)
	}
}

// Verif_C10_SealReal: the same with the REAL HSalsa20 / Salsa20 code on both sides (terms fold),
// lengths {0, 33, 97}, out = nil.
func Verif_C10_SealReal() {
	c10Seal([]int{0, 33, 97}[verifrt.Choose(0, 2)], 0, 0, false)
}

// Verif_C10_SealT: every message length 0..200, out = 2-byte prefix with no spare capacity
// (abstract Salsa).
func Verif_C10_SealT() {
	c10Seal(verifrt.Choose(0, 200), 2, 0, true)
}

func c10Open(bl, pl, sc int) {
	c10AbstractSalsa = true
	nonce := c10Arr24(verifrt.Bytes(24))
	key := c10Arr32(verifrt.Bytes(32))
	box := verifrt.Bytes(bl)
	genuine := bl >= Overhead && verifrt.Choose(0, 1) == 1
	if genuine {
		// put the genuine tag (same primitives: UFs under the engine, real natively) in front of
		// the arbitrary ciphertext, so that the accepting path also exists in native replay
		stream := make([]byte, 32)
		k := key
		salsa20.XORKeyStream(stream, stream, nonce[:], &k)
		var polyKey [32]byte
		copy(polyKey[:], stream)
		var tag [16]byte
		poly1305.Sum(&tag, box[16:], &polyKey)
		copy(box[:16], tag[:])
	}
	b0 := append([]byte{}, box...)
	out := c10Out(pl, sc)
	prefix := append([]byte{}, out...)
	var ret []byte
	var ok bool
	p := verifrt.Panics(func() { ret, ok = Open(out, box, &nonce, &key) })
	verifrt.Assert(!p, "Open does not panic on non-overlapping buffers")
	refM, refOK := c10RefOpen(b0, &nonce, &key)
	verifrt.Assert(ok == refOK, "Open accepts iff the tag is Poly1305(first 32 stream bytes, ciphertext)")
	if genuine {
		verifrt.Assert(ok, "a box carrying the genuine tag is accepted (incl. the 16-byte box of the empty message)")
		verifrt.Reach("open-genuine")
	}
	if bl < Overhead {
		verifrt.Assert(!ok, "input shorter than the tag is rejected")
	}
	if !ok {
		verifrt.Assert(ret == nil, "nil on failure")
		verifrt.Reach("open-reject")
	} else {
		verifrt.Assert(len(ret) == pl+bl-Overhead, "len = len(out) + len(box) - 16")
		for i := 0; i < pl; i++ {
			verifrt.Assert(ret[i] == prefix[i], "Open appends to out")
		}
		for i := range refM {
			verifrt.Assert(ret[pl+i] == refM[i], "Open = ciphertext XOR XSalsa20 stream from byte 32")
		}
		verifrt.Reach("open-ok")
	}
	for i := range box {
		verifrt.Assert(box[i] == b0[i], "box not modified")
	}
}

// Verif_C10_Open: secretbox.Open on ARBITRARY (attacker-chosen) boxes of every length 0..17 and
// {47,48,49,80,146} with all keys/nonces: rejects inputs shorter than 16, accepts exactly when
// box[0:16] = Poly1305(polykey, box[16:]), and then returns prefix || box[16:] xor stream[32:].
func Verif_C10_Open() {
	k := verifrt.Choose(0, 22)
	bl := k
	if k > 17 {
		bl = []int{47, 48, 49, 80, 146}[k-18]
	}
	if verifrt.Choose(0, 1) == 0 {
		c10Open(bl, 0, 0)
	} else {
		c10Open(bl, 3, 200)
	}
}

// Verif_C10_Overlap: Seal and Open panic when the output region overlaps the input
// (message inside out's spare capacity), before anything is written.
func Verif_C10_Overlap() {
	nonce := c10Arr24(verifrt.Bytes(24))
	key := c10Arr32(verifrt.Bytes(32))
	buf := verifrt.Bytes(120)
	saved := append([]byte{}, buf...)
	// Seal writes buf[0:56], Open writes buf[0:24]: every offset below makes the regions intersect
	off := []int{0, 1, 16, 23}[verifrt.Choose(0, 3)]
	var p bool
	if verifrt.Choose(0, 1) == 0 {
		p = verifrt.Panics(func() { Seal(buf[:0], buf[off:off+40], &nonce, &key) })
		verifrt.Assert(p, "Seal: overlapping out/message panics")
	} else {
		// a genuine box so that authentication passes and the overlap check is reached
		m := verifrt.Bytes(24)
		box := Seal(nil, m, &nonce, &key)
		copy(buf[off:], box)
		copy(saved, buf)
		p = verifrt.Panics(func() { Open(buf[:0], buf[off:off+40], &nonce, &key) })
		verifrt.Assert(p, "Open: overlapping out/box panics")
	}
	for i := range buf {
		verifrt.Assert(buf[i] == saved[i], "nothing written before the overlap panic")
	}
}
