//go:build verif

package auth

import (
	"crypto/hmac"
	"crypto/sha512"
	"hash"

	"golang.org/x/crypto/internal/verifrt"
)

// c10Mac is the hash.Hash returned by the abstracted hmac.New: Sum = UF(key, data) with the
// 64-byte output of HMAC-SHA-512. The hash constructor passed to hmac.New is checked to be a
// 64-byte-digest, 128-byte-block hash (SHA-512 among the std SHA-2/SHA-3 functions).
type c10Mac struct {
	key  []byte
	data []byte
}

func (h *c10Mac) Write(p []byte) (int, error) { h.data = append(h.data, p...); return len(p), nil }
func (h *c10Mac) Sum(b []byte) []byte {
	return append(b, verifrt.UFBytes("hmac-sha512", 64, h.key, h.data)...)
}
func (h *c10Mac) Reset()         { h.data = nil }
func (h *c10Mac) Size() int      { return 64 }
func (h *c10Mac) BlockSize() int { return 128 }

//verif:stub crypto/hmac.New
func c10StubHMACNew(h func() hash.Hash, key []byte) hash.Hash {
	if !verifrt.Symbolic() {
		return hmac.New(h, key)
	}
	inner := h()
	verifrt.Assert(inner.Size() == 64 && inner.BlockSize() == 128, "HMAC is instantiated with SHA-512")
	return &c10Mac{key: append([]byte{}, key...)}
}

// c10HMACSHA512 is HMAC-SHA-512(key, m) (64 bytes), same abstraction / natively real.
func c10HMACSHA512(key, m []byte) []byte {
	mac := hmac.New(sha512.New, key)
	mac.Write(m)
	return mac.Sum(nil)
}

// Verif_C10_AuthSum: auth.Sum(m, key) = HMAC-SHA-512(key, m)[0:32] (crypto_auth_hmacsha512256)
// for all 32-byte keys and messages of every length 0..40 and 200; Size = KeySize = 32; m and key
// unchanged.
func Verif_C10_AuthSum() {
	n := verifrt.Choose(0, 41)
	if n == 41 {
		n = 200
	}
	var key [KeySize]byte
	copy(key[:], verifrt.Bytes(32))
	k0 := key
	m := verifrt.Bytes(n)
	m0 := append([]byte{}, m...)
	got := Sum(m, &key)
	want := c10HMACSHA512(k0[:], m0)
	verifrt.Assert(Size == 32 && KeySize == 32 && len(want) == 64, "sizes")
	for i := 0; i < 32; i++ {
		verifrt.Assert(got[i] == want[i], "Sum = first 32 bytes of HMAC-SHA-512")
	}
	for i := range m {
		verifrt.Assert(m[i] == m0[i], "message not modified")
	}
	for i := range key {
		verifrt.Assert(key[i] == k0[i], "key not modified")
	}
	verifrt.Assert(Verify(got[:], m, &key), "Verify accepts Sum's output")
	verifrt.Observe("auth", got[:])
}

// Verif_C10_AuthVerify: auth.Verify(digest, m, key) for ARBITRARY digests of length
// {0,1,31,32,33,64}: true exactly when len(digest) = 32 and all 32 bytes equal
// HMAC-SHA-512(key, m)[0:32] (the comparison is hmac.Equal = constant-time compare; the engine
// models its result, not its timing); in particular a full 64-byte HMAC is rejected.
func Verif_C10_AuthVerify() {
	dl := []int{0, 1, 31, 32, 33, 64}[verifrt.Choose(0, 5)]
	n := []int{0, 5, 130}[verifrt.Choose(0, 2)]
	var key [KeySize]byte
	copy(key[:], verifrt.Bytes(32))
	m := verifrt.Bytes(n)
	// digest = (first dl bytes of the full 64-byte HMAC) XOR an arbitrary mask: still every
	// digest value, but a counterexample with mask = 0 replays natively with the real HMAC
	want := c10HMACSHA512(key[:], m)
	digest := verifrt.Bytes(dl)
	for i := range digest {
		digest[i] ^= want[i]
	}
	got := Verify(digest, m, &key)
	if dl != 32 {
		verifrt.Assert(!got, "digest of the wrong length is rejected")
		verifrt.Reach("verify-len")
		return
	}
	var diff byte
	for i := 0; i < 32; i++ {
		diff |= digest[i] ^ want[i]
	}
	verifrt.Assert(got == (diff == 0), "Verify = (digest equals the 32-byte truncated HMAC)")
	if got {
		verifrt.Reach("verify-accept")
	} else {
		verifrt.Reach("verify-reject")
	}
}
