//go:build verif

package box

import (
	"crypto/subtle"
	"errors"
	"hash"

	"golang.org/x/crypto/blake2b"
	"golang.org/x/crypto/curve25519"
	"golang.org/x/crypto/internal/poly1305"
	"golang.org/x/crypto/internal/verifrt"
	"golang.org/x/crypto/nacl/secretbox"
	"golang.org/x/crypto/salsa20/salsa"
)

// ---- abstractions (symbolic engine only; natively the real functions run) ----

// X25519 as an uninterpreted function (curve25519's wrapper is C11; the arithmetic is std).
//
//verif:stub golang.org/x/crypto/curve25519.ScalarMult
func c10StubScalarMult(dst, scalar, point *[32]byte) {
	if !verifrt.Symbolic() {
		curve25519.ScalarMult(dst, scalar, point)
		return
	}
	copy(dst[:], verifrt.UFBytes("x25519", 32, scalar[:], point[:]))
}

//verif:stub golang.org/x/crypto/curve25519.ScalarBaseMult
func c10StubScalarBaseMult(dst, scalar *[32]byte) {
	if !verifrt.Symbolic() {
		curve25519.ScalarBaseMult(dst, scalar)
		return
	}
	base := [32]byte{9}
	copy(dst[:], verifrt.UFBytes("x25519", 32, scalar[:], base[:]))
}

//verif:stub golang.org/x/crypto/internal/poly1305.Sum
func c10StubPolySum(out *[16]byte, m []byte, key *[32]byte) {
	if !verifrt.Symbolic() {
		poly1305.Sum(out, m, key)
		return
	}
	copy(out[:], verifrt.UFBytes("poly1305", 16, key[:], m))
}

//verif:stub golang.org/x/crypto/internal/poly1305.Verify
func c10StubPolyVerify(mac *[16]byte, m []byte, key *[32]byte) bool {
	if !verifrt.Symbolic() {
		return poly1305.Verify(mac, m, key)
	}
	t := verifrt.UFBytes("poly1305", 16, key[:], m)
	return subtle.ConstantTimeCompare(t, mac[:]) == 1
}

// c10Hash is the hash.Hash returned by the abstracted blake2b.New: Sum = UF(size, key, data).
type c10Hash struct {
	size int
	key  []byte
	data []byte
}

func (h *c10Hash) Write(p []byte) (int, error) { h.data = append(h.data, p...); return len(p), nil }
func (h *c10Hash) Sum(b []byte) []byte {
	return append(b, verifrt.UFBytes("blake2b", h.size, []byte{byte(h.size)}, h.key, h.data)...)
}
func (h *c10Hash) Reset()         { h.data = nil }
func (h *c10Hash) Size() int      { return h.size }
func (h *c10Hash) BlockSize() int { return 128 }

//verif:stub golang.org/x/crypto/blake2b.New
func c10StubBlake2bNew(size int, key []byte) (hash.Hash, error) {
	if !verifrt.Symbolic() {
		return blake2b.New(size, key)
	}
	if size < 1 || size > 64 || len(key) > 64 {
		return nil, errors.New("blake2b: invalid size")
	}
	return &c10Hash{size: size, key: append([]byte{}, key...)}, nil
}

// c10Blake2b192 is BLAKE2b with a 24-byte digest, unkeyed (libsodium crypto_generichash with
// outlen = crypto_box_NONCEBYTES), same abstraction.
func c10Blake2b192(data []byte) []byte {
	h, err := blake2b.New(24, nil)
	if err != nil {
		panic(err)
	}
	h.Write(data)
	return h.Sum(nil)
}

var c10AbstractSalsa bool

//verif:stub golang.org/x/crypto/salsa20/salsa.HSalsa20
func c10StubHSalsa20(out *[32]byte, in *[16]byte, k *[32]byte, c *[16]byte) {
	if !verifrt.Symbolic() || !c10AbstractSalsa {
		salsa.HSalsa20(out, in, k, c)
		return
	}
	copy(out[:], verifrt.UFBytes("hsalsa20", 32, in[:], k[:], c[:]))
}

//verif:stub golang.org/x/crypto/salsa20/salsa.XORKeyStream
func c10StubXORKeyStream(out, in []byte, counter *[16]byte, key *[32]byte) {
	if !verifrt.Symbolic() || !c10AbstractSalsa {
		salsa.XORKeyStream(out, in, counter, key)
		return
	}
	var ctr uint64
	for i := 0; i < 8; i++ {
		ctr |= uint64(counter[8+i]) << (8 * uint(i))
	}
	for b := 0; 64*b < len(in); b++ {
		blockIn := append([]byte{}, counter[:8]...)
		for i := 0; i < 8; i++ {
			blockIn = append(blockIn, byte((ctr+uint64(b))>>(8*uint(i))))
		}
		ks := verifrt.UFBytes("salsa20block", 64, blockIn, key[:])
		for i := 64 * b; i < len(in) && i < 64*b+64; i++ {
			out[i] = in[i] ^ ks[i-64*b]
		}
	}
}

// ---- reference constructions (NaCl "Cryptography in NaCl" sections 7-9; libsodium sealed boxes) ----

// c10X25519 = crypto_scalarmult_curve25519(scalar, point), all-zero for rejected results.
func c10X25519(scalar, point *[32]byte) (r [32]byte) {
	curve25519.ScalarMult(&r, scalar, point)
	return
}

// c10BeforeNM = crypto_box_beforenm: k = HSalsa20(X25519(sk, pk), 0^16) with the constant
// "expand 32-byte k".
func c10BeforeNM(pk, sk *[32]byte) (k [32]byte) {
	s := c10X25519(sk, pk)
	var zero16 [16]byte
	sigma := [16]byte{'e', 'x', 'p', 'a', 'n', 'd', ' ', '3', '2', '-', 'b', 'y', 't', 'e', ' ', 'k'}
	salsa.HSalsa20(&k, &zero16, &s, &sigma)
	return
}

func c10Arr24(b []byte) (a [24]byte) { copy(a[:], b); return }
func c10Arr32(b []byte) (a [32]byte) { copy(a[:], b); return }

// Verif_C10_Precompute: Precompute(shared, pk, sk) = HSalsa20(X25519(sk, pk), 0^16) for all
// keys, with shared holding arbitrary previous contents, also when shared aliases pk or sk;
// pk/sk unchanged otherwise. X25519 uninterpreted; choice: real HSalsa20 code (terms fold) or
// HSalsa20 as the uninterpreted function C09 ties to the specification (arguments compared).
func Verif_C10_Precompute() { c10Precompute(true) }

// Verif_C10_PrecomputeReal: the same with the real HSalsa20 code (terms fold).
func Verif_C10_PrecomputeReal() { c10Precompute(false) }

func c10Precompute(abstractSalsa bool) {
	c10AbstractSalsa = abstractSalsa
	pk := c10Arr32(verifrt.Bytes(32))
	sk := c10Arr32(verifrt.Bytes(32))
	shared := c10Arr32(verifrt.Bytes(32))
	pk0, sk0 := pk, sk
	want := c10BeforeNM(&pk0, &sk0)
	var got [32]byte
	switch verifrt.Choose(0, 2) {
	case 0:
		Precompute(&shared, &pk, &sk)
		got = shared
		for i := range pk {
			verifrt.Assert(pk[i] == pk0[i] && sk[i] == sk0[i], "keys not modified")
		}
	case 1:
		Precompute(&pk, &pk, &sk)
		got = pk
	default:
		Precompute(&sk, &pk, &sk)
		got = sk
	}
	for i := range got {
		verifrt.Assert(got[i] == want[i], "Precompute = HSalsa20(X25519(sk, pk), 0^16)")
	}
	verifrt.Observe("beforenm", got[:])
}

// Verif_C10_SealOpen: box.Seal(out, m, n, pk, sk) = secretbox.Seal(out, m, n, beforenm(pk, sk))
// and SealAfterPrecomputation = secretbox.Seal; Open / OpenAfterPrecomputation on arbitrary boxes
// = secretbox.Open under the same key (secretbox itself is decided in its own harness);
// message lengths {0, 1, 33, 70}.
func Verif_C10_SealOpen() {
	c10AbstractSalsa = true
	n := []int{0, 1, 33, 70}[verifrt.Choose(0, 3)]
	pk := c10Arr32(verifrt.Bytes(32))
	sk := c10Arr32(verifrt.Bytes(32))
	nonce := c10Arr24(verifrt.Bytes(24))
	m := verifrt.Bytes(n)
	prefix := verifrt.Bytes(2)
	k := c10BeforeNM(&pk, &sk)
	want := secretbox.Seal(append([]byte{}, prefix...), m, &nonce, &k)
	got := Seal(append([]byte{}, prefix...), m, &nonce, &pk, &sk)
	got2 := SealAfterPrecomputation(append([]byte{}, prefix...), m, &nonce, &k)
	verifrt.Assert(len(got) == len(want) && len(got2) == len(want) && len(want) == 2+Overhead+n, "lengths")
	for i := range want {
		verifrt.Assert(got[i] == want[i], "box.Seal = secretbox.Seal under beforenm key")
		verifrt.Assert(got2[i] == want[i], "SealAfterPrecomputation = secretbox.Seal")
	}
	back, ok := Open(nil, got[2:], &nonce, &pk, &sk)
	verifrt.Assert(ok && len(back) == n, "Open accepts Seal's output under the same key pair arguments")
	for i := range back {
		verifrt.Assert(back[i] == m[i], "Open(Seal(m)) = m")
	}
	verifrt.Observe("box", got)
	verifrt.Reach("sealopen-ok")
}

// Verif_C10_OpenForged: Open and OpenAfterPrecomputation on ARBITRARY boxes (lengths
// {0,15,16,17,50}) agree with secretbox.Open under beforenm(pk, sk) in acceptance and output.
func Verif_C10_OpenForged() {
	c10AbstractSalsa = true
	bl := []int{0, 15, 16, 17, 50}[verifrt.Choose(0, 4)]
	pk := c10Arr32(verifrt.Bytes(32))
	sk := c10Arr32(verifrt.Bytes(32))
	nonce := c10Arr24(verifrt.Bytes(24))
	box := verifrt.Bytes(bl)
	k := c10BeforeNM(&pk, &sk)
	wantM, wantOK := secretbox.Open(nil, box, &nonce, &k)
	gotM, gotOK := Open(nil, box, &nonce, &pk, &sk)
	got2M, got2OK := OpenAfterPrecomputation(nil, box, &nonce, &k)
	verifrt.Assert(gotOK == wantOK && got2OK == wantOK, "acceptance = secretbox.Open")
	verifrt.Assert(len(gotM) == len(wantM) && len(got2M) == len(wantM), "lengths")
	for i := range wantM {
		verifrt.Assert(gotM[i] == wantM[i] && got2M[i] == wantM[i], "plaintext = secretbox.Open")
	}
	if wantOK {
		verifrt.Reach("forged-accept")
	} else {
		verifrt.Assert(gotM == nil && got2M == nil, "nil on failure")
		verifrt.Reach("forged-reject")
	}
}

// c10Reader hands out fixed bytes (the "randomness" of SealAnonymous), then fails.
type c10Reader struct {
	data []byte
	fail bool
}

func (r *c10Reader) Read(p []byte) (int, error) {
	if r.fail || len(r.data) == 0 {
		return 0, errors.New("no randomness")
	}
	n := copy(p, r.data)
	r.data = r.data[n:]
	return n, nil
}

// Verif_C10_SealAnonymous: with esk the 32 bytes read from rand:
// SealAnonymous(out, m, pk, rand) = out || epk || crypto_box(m, nonce, pk, esk) where
// epk = X25519(esk, 9), nonce = BLAKE2b-192(epk || pk) (libsodium crypto_box_seal); a failing
// reader gives (nil, err); message lengths {0, 1, 40}, out = nil / 3-byte prefix with or without
// spare capacity. OpenAnonymous on arbitrary input: rejects len < 48, otherwise equals
// Open(box[32:], nonce = BLAKE2b-192(box[0:32] || pk), box[0:32], sk).
func Verif_C10_SealAnonymous() {
	c10AbstractSalsa = true
	n := []int{0, 1, 40}[verifrt.Choose(0, 2)]
	pk := c10Arr32(verifrt.Bytes(32))
	pk0 := pk
	esk := c10Arr32(verifrt.Bytes(32))
	m := verifrt.Bytes(n)
	var out []byte
	pl := 0
	switch verifrt.Choose(0, 2) {
	case 1:
		out = verifrt.Bytes(3)
		pl = 3
	case 2:
		out = verifrt.Bytes(3 + 200)[:3]
		pl = 3
	}
	prefix := append([]byte{}, out...)
	fail := verifrt.Choose(0, 1) == 1
	got, err := SealAnonymous(out, m, &pk, &c10Reader{data: append([]byte{}, esk[:]...), fail: fail})
	if fail {
		verifrt.Assert(err != nil && got == nil, "reader failure is returned")
		verifrt.Reach("anon-randfail")
		return
	}
	verifrt.Assert(err == nil, "no error")
	base := [32]byte{9}
	epk := c10X25519(&esk, &base)
	nonce := c10Arr24(c10Blake2b192(append(append([]byte{}, epk[:]...), pk0[:]...)))
	k := c10BeforeNM(&pk0, &esk)
	sealed := secretbox.Seal(nil, m, &nonce, &k)
	verifrt.Assert(len(got) == pl+AnonymousOverhead+n && AnonymousOverhead == 48, "len = len(out) + 48 + len(m)")
	for i := 0; i < pl; i++ {
		verifrt.Assert(got[i] == prefix[i], "appends to out")
	}
	for i := range epk {
		verifrt.Assert(got[pl+i] == epk[i], "ephemeral public key first")
	}
	for i := range sealed {
		verifrt.Assert(got[pl+32+i] == sealed[i], "then crypto_box(m, BLAKE2b-192(epk || pk), pk, esk)")
	}
	for i := range pk {
		verifrt.Assert(pk[i] == pk0[i], "recipient key not modified")
	}
	verifrt.Observe("sealed", got)
	verifrt.Reach("anon-ok")
}

// Verif_C10_OpenAnonymous: see Verif_C10_SealAnonymous; lengths {0, 47, 48, 49, 90}.
func Verif_C10_OpenAnonymous() {
	c10AbstractSalsa = true
	bl := []int{0, 47, 48, 49, 90}[verifrt.Choose(0, 4)]
	pk := c10Arr32(verifrt.Bytes(32))
	sk := c10Arr32(verifrt.Bytes(32))
	box := verifrt.Bytes(bl)
	gotM, gotOK := OpenAnonymous(nil, box, &pk, &sk)
	if bl < 48 {
		verifrt.Assert(!gotOK && gotM == nil, "shorter than epk + tag is rejected")
		verifrt.Reach("oanon-short")
		return
	}
	epk := c10Arr32(box[:32])
	nonce := c10Arr24(c10Blake2b192(append(append([]byte{}, epk[:]...), pk[:]...)))
	k := c10BeforeNM(&epk, &sk)
	wantM, wantOK := secretbox.Open(nil, box[32:], &nonce, &k)
	verifrt.Assert(gotOK == wantOK && len(gotM) == len(wantM), "acceptance = crypto_box_open with derived nonce")
	for i := range wantM {
		verifrt.Assert(gotM[i] == wantM[i], "plaintext")
	}
	if wantOK {
		verifrt.Reach("oanon-accept")
	} else {
		verifrt.Reach("oanon-reject")
	}
}
