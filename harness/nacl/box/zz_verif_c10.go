//go:build verif

package box

import (
	"crypto/subtle"
	"errors"
	"hash"

	"golang.org/x/crypto/blake2b"
	"golang.org/x/crypto/curve25519"
	"golang.org/x/crypto/internal/poly1305"
	"golang.org/x/crypto/internal/verifrt"
	"golang.org/x/crypto/nacl/secretbox"
	"golang.org/x/crypto/salsa20/salsa"
)

// ---- abstractions (symbolic engine only; natively the real functions run) ----

// X25519 as an uninterpreted function (curve25519's wrapper is C11; the arithmetic is std).
//
//verif:stub golang.org/x/crypto/curve25519.ScalarMult
func c10StubScalarMult(dst, scalar, point *[32]byte) {
	if !verifrt.Symbolic() {
		curve25519.ScalarMult(dst, scalar, point)
		return
	}
	copy(dst[:], verifrt.UFBytes("x25519", 32, scalar[:], point[:]))
}

// curve25519.X25519 (not called by the current box.go, but the natural replacement for the
// deprecated ScalarMult): same uninterpreted function with the C11 contract — error exactly
// when the value is all-zero or a length is not 32.
//
//verif:stub golang.org/x/crypto/curve25519.X25519
func c10StubX25519(scalar, point []byte) ([]byte, error) {
	if !verifrt.Symbolic() {
		return curve25519.X25519(scalar, point)
	}
	if len(scalar) != 32 || len(point) != 32 {
		return nil, errors.New("bad input length")
	}
	r := verifrt.UFBytes("x25519", 32, scalar, point)
	var acc byte
	for _, b := range r {
		acc |= b
	}
	if acc == 0 {
		return nil, errors.New("bad input point: low order point")
	}
	return r, nil
}

//verif:stub golang.org/x/crypto/curve25519.ScalarBaseMult
func c10StubScalarBaseMult(dst, scalar *[32]byte) {
	if !verifrt.Symbolic() {
		curve25519.ScalarBaseMult(dst, scalar)
		return
	}
	base := [32]byte{9}
	copy(dst[:], verifrt.UFBytes("x25519", 32, scalar[:], base[:]))
}

//verif:stub golang.org/x/crypto/internal/poly1305.Sum
func c10StubPolySum(out *[16]byte, m []byte, key *[32]byte) {
	if !verifrt.Symbolic() {
		poly1305.Sum(out, m, key)
		return
	}
	copy(out[:], verifrt.UFBytes("poly1305", 16, key[:], m))
}

//verif:stub golang.org/x/crypto/internal/poly1305.Verify
func c10StubPolyVerify(mac *[16]byte, m []byte, key *[32]byte) bool {
	if !verifrt.Symbolic() {
		return poly1305.Verify(mac, m, key)
	}
	t := verifrt.UFBytes("poly1305", 16, key[:], m)
	return subtle.ConstantTimeCompare(t, mac[:]) == 1
}

// c10Hash is the hash.Hash returned by the abstracted blake2b.New: Sum = UF(size, key, data).
type c10Hash struct {
	size int
	key  []byte
	data []byte
}

func (h *c10Hash) Write(p []byte) (int, error) { h.data = append(h.data, p...); return len(p), nil }
func (h *c10Hash) Sum(b []byte) []byte {
	return append(b, verifrt.UFBytes("blake2b", h.size, []byte{byte(h.size)}, h.key, h.data)...)
}
func (h *c10Hash) Reset()         { h.data = nil }
func (h *c10Hash) Size() int      { return h.size }
func (h *c10Hash) BlockSize() int { return 128 }

//verif:stub golang.org/x/crypto/blake2b.New
func c10StubBlake2bNew(size int, key []byte) (hash.Hash, error) {
	if !verifrt.Symbolic() {
		return blake2b.New(size, key)
	}
	if size < 1 || size > 64 || len(key) > 64 {
		return nil, errors.New("blake2b: invalid size")
	}
	return &c10Hash{size: size, key: append([]byte{}, key...)}, nil
}

// c10Blake2b192 is BLAKE2b with a 24-byte digest, unkeyed (libsodium crypto_generichash with
// outlen = crypto_box_NONCEBYTES), same abstraction.
func c10Blake2b192(data []byte) []byte {
	h, err := blake2b.New(24, nil)
	if err != nil {
		panic(err)
	}
	h.Write(data)
	return h.Sum(nil)
}

var c10AbstractSalsa bool

//verif:stub golang.org/x/crypto/salsa20/salsa.HSalsa20
func c10StubHSalsa20(out *[32]byte, in *[16]byte, k *[32]byte, c *[16]byte) {
	if !verifrt.Symbolic() || !c10AbstractSalsa {
		salsa.HSalsa20(out, in, k, c)
		return
	}
	copy(out[:], verifrt.UFBytes("hsalsa20", 32, in[:], k[:], c[:]))
}

//verif:stub golang.org/x/crypto/salsa20/salsa.XORKeyStream
func c10StubXORKeyStream(out, in []byte, counter *[16]byte, key *[32]byte) {
	if !verifrt.Symbolic() || !c10AbstractSalsa {
		salsa.XORKeyStream(out, in, counter, key)
		return
	}
	var ctr uint64
	for i := 0; i < 8; i++ {
		ctr |= uint64(counter[8+i]) << (8 * uint(i))
	}
	for b := 0; 64*b < len(in); b++ {
		blockIn := append([]byte{}, counter[:8]...)
		for i := 0; i < 8; i++ {
			blockIn = append(blockIn, byte((ctr+uint64(b))>>(8*uint(i))))
		}
		ks := verifrt.UFBytes("salsa20block", 64, blockIn, key[:])
		for i := 64 * b; i < len(in) && i < 64*b+64; i++ {
			out[i] = in[i] ^ ks[i-64*b]
		}
	}
}

// ---- reference constructions (NaCl "Cryptography in NaCl" sections 7-9; libsodium sealed boxes) ----

// c10X25519 = crypto_scalarmult_curve25519(scalar, point), all-zero for rejected results.
func c10X25519(scalar, point *[32]byte) (r [32]byte) {
	curve25519.ScalarMult(&r, scalar, point)
	return
}

// c10BeforeNM = crypto_box_beforenm: k = HSalsa20(X25519(sk, pk), 0^16) with the constant
// "expand 32-byte k".
func c10BeforeNM(pk, sk *[32]byte) (k [32]byte) {
	s := c10X25519(sk, pk)
	var zero16 [16]byte
	sigma := [16]byte{'e', 'x', 'p', 'a', 'n', 'd', ' ', '3', '2', '-', 'b', 'y', 't', 'e', ' ', 'k'}
	salsa.HSalsa20(&k, &zero16, &s, &sigma)
	return
}

func c10Arr24(b []byte) (a [24]byte) { copy(a[:], b); return }
func c10Arr32(b []byte) (a [32]byte) { copy(a[:], b); return }

// Verif_C10_Precompute: Precompute(shared, pk, sk) = HSalsa20(X25519(sk, pk), 0^16) for all
// keys, with shared holding arbitrary previous contents, also when shared aliases pk or sk;
// pk/sk unchanged otherwise. X25519 uninterpreted; choice: real HSalsa20 code (terms fold) or
// HSalsa20 as the uninterpreted function C09 ties to the specification (arguments compared).
func Verif_C10_Precompute() { c10Precompute(true) }

// Verif_C10_PrecomputeReal: the same with the real HSalsa20 code (terms fold).
func Verif_C10_PrecomputeReal() { c10Precompute(false) }

// Points of small order (libsodium's list): X25519 is all-zero on them. Offered as concrete peer
// keys so that the zero-DH-output case replays natively (under the engine the UF takes the value
// zero on some path for any point anyway).
var c10LowOrder = [][32]byte{
	{},
	{1},
	{0xe0, 0xeb, 0x7a, 0x7c, 0x3b, 0x41, 0xb8, 0xae, 0x16, 0x56, 0xe3, 0xfa, 0xf1, 0x9f, 0xc4, 0x6a, 0xda, 0x09, 0x8d, 0xeb, 0x9c, 0x32, 0xb1, 0xfd, 0x86, 0x62, 0x05, 0x16, 0x5f, 0x49, 0xb8, 0x00},
	{0x5f, 0x9c, 0x95, 0xbc, 0xa3, 0x50, 0x8c, 0x24, 0xb1, 0xd0, 0xb1, 0x55, 0x9c, 0x83, 0xef, 0x5b, 0x04, 0x44, 0x5c, 0xc4, 0x58, 0x1c, 0x8e, 0x86, 0xd8, 0x22, 0x4e, 0xdd, 0xd0, 0x9f, 0x11, 0x57},
	{0xec, 0xff, 0xff, 0xff, 0xff, 0xff, 0xff, 0xff, 0xff, 0xff, 0xff, 0xff, 0xff, 0xff, 0xff, 0xff, 0xff, 0xff, 0xff, 0xff, 0xff, 0xff, 0xff, 0xff, 0xff, 0xff, 0xff, 0xff, 0xff, 0xff, 0xff, 0x7f},
}

// c10Tag is the Poly1305 tag crypto_secretbox puts in front of ciphertext ct under (k, nonce):
// Poly1305(first 32 bytes of the XSalsa20 stream, ct).
func c10Tag(ct []byte, nonce *[24]byte, k *[32]byte) (tag [16]byte) {
	var sub [32]byte
	var hn, counter [16]byte
	copy(hn[:], nonce[:16])
	sigma := [16]byte{'e', 'x', 'p', 'a', 'n', 'd', ' ', '3', '2', '-', 'b', 'y', 't', 'e', ' ', 'k'}
	salsa.HSalsa20(&sub, &hn, k, &sigma)
	copy(counter[:8], nonce[16:])
	first := make([]byte, 64)
	salsa.XORKeyStream(first, first, &counter, &sub)
	var polyKey [32]byte
	copy(polyKey[:], first[:32])
	poly1305.Sum(&tag, ct, &polyKey)
	return
}

func c10Precompute(abstractSalsa bool) {
	c10AbstractSalsa = abstractSalsa
	pk := c10Arr32(verifrt.Bytes(32))
	if abstractSalsa {
		if lo := verifrt.Choose(0, len(c10LowOrder)); lo > 0 {
			pk = c10LowOrder[lo-1] // low-order peer key: shared must become HSalsa20(0^32, 0^16)
		}
	}
	sk := c10Arr32(verifrt.Bytes(32))
	shared := c10Arr32(verifrt.Bytes(32))
	pk0, sk0 := pk, sk
	want := c10BeforeNM(&pk0, &sk0)
	var got [32]byte
	switch verifrt.Choose(0, 2) {
	case 0:
		Precompute(&shared, &pk, &sk)
		got = shared
		for i := range pk {
			verifrt.Assert(pk[i] == pk0[i] && sk[i] == sk0[i], "keys not modified")
		}
	case 1:
		Precompute(&pk, &pk, &sk)
		got = pk
	default:
		Precompute(&sk, &pk, &sk)
		got = sk
	}
	for i := range got {
		verifrt.Assert(got[i] == want[i], "Precompute = HSalsa20(X25519(sk, pk), 0^16)")
	}
	verifrt.Observe("beforenm", got[:])
}

// Verif_C10_SealOpen: box.Seal(out, m, n, pk, sk) = secretbox.Seal(out, m, n, beforenm(pk, sk))
// and SealAfterPrecomputation = secretbox.Seal; Open / OpenAfterPrecomputation on arbitrary boxes
// = secretbox.Open under the same key (secretbox itself is decided in its own harness);
// message lengths {0, 1, 33, 70}.
func Verif_C10_SealOpen() {
	c10AbstractSalsa = true
	n := []int{0, 1, 33, 70}[verifrt.Choose(0, 3)]
	pk := c10Arr32(verifrt.Bytes(32))
	sk := c10Arr32(verifrt.Bytes(32))
	nonce := c10Arr24(verifrt.Bytes(24))
	m := verifrt.Bytes(n)
	prefix := verifrt.Bytes(2)
	k := c10BeforeNM(&pk, &sk)
	want := secretbox.Seal(append([]byte{}, prefix...), m, &nonce, &k)
	got := Seal(append([]byte{}, prefix...), m, &nonce, &pk, &sk)
	got2 := SealAfterPrecomputation(append([]byte{}, prefix...), m, &nonce, &k)
	verifrt.Assert(len(got) == len(want) && len(got2) == len(want) && len(want) == 2+Overhead+n, "lengths")
	for i := range want {
		verifrt.Assert(got[i] == want[i], "box.Seal = secretbox.Seal under beforenm key")
		verifrt.Assert(got2[i] == want[i], "SealAfterPrecomputation = secretbox.Seal")
	}
	back, ok := Open(nil, got[2:], &nonce, &pk, &sk)
	verifrt.Assert(ok && len(back) == n, "Open accepts Seal's output under the same key pair arguments")
	for i := range back {
		verifrt.Assert(back[i] == m[i], "Open(Seal(m)) = m")
	}
	verifrt.Observe("box", got)
	verifrt.Reach("sealopen-ok")
}

// Verif_C10_OpenForged: Open and OpenAfterPrecomputation on ARBITRARY boxes (lengths
// {0,15,16,17,50}) agree with secretbox.Open under beforenm(pk, sk) in acceptance and output.
func Verif_C10_OpenForged() {
	c10AbstractSalsa = true
	bl := []int{0, 15, 16, 17, 50}[verifrt.Choose(0, 4)]
	pk := c10Arr32(verifrt.Bytes(32))
	sk := c10Arr32(verifrt.Bytes(32))
	nonce := c10Arr24(verifrt.Bytes(24))
	box := verifrt.Bytes(bl)
	k := c10BeforeNM(&pk, &sk)
	wantM, wantOK := secretbox.Open(nil, box, &nonce, &k)
	gotM, gotOK := Open(nil, box, &nonce, &pk, &sk)
	got2M, got2OK := OpenAfterPrecomputation(nil, box, &nonce, &k)
	verifrt.Assert(gotOK == wantOK && got2OK == wantOK, "acceptance = secretbox.Open")
	verifrt.Assert(len(gotM) == len(wantM) && len(got2M) == len(wantM), "lengths")
	for i := range wantM {
		verifrt.Assert(gotM[i] == wantM[i] && got2M[i] == wantM[i], "plaintext = secretbox.Open")
	}
	if wantOK {
		verifrt.Reach("forged-accept")
	} else {
		verifrt.Assert(gotM == nil && got2M == nil, "nil on failure")
		verifrt.Reach("forged-reject")
	}
}

// c10Reader hands out fixed bytes (the "randomness" of SealAnonymous), then fails.
type c10Reader struct {
	data []byte
	fail bool
}

func (r *c10Reader) Read(p []byte) (int, error) {
	if r.fail || len(r.data) == 0 {
		return 0, errors.New("no randomness")
	}
	n := copy(p, r.data)
	r.data = r.data[n:]
	return n, nil
}

// Verif_C10_SealAnonymous: with esk the 32 bytes read from rand:
// SealAnonymous(out, m, pk, rand) = out || epk || crypto_box(m, nonce, pk, esk) where
// epk = X25519(esk, 9), nonce = BLAKE2b-192(epk || pk) (libsodium crypto_box_seal); a failing
// reader gives (nil, err); message lengths {0, 1, 40}, out = nil / 3-byte prefix with or without
// spare capacity. OpenAnonymous on arbitrary input: rejects len < 48, otherwise equals
// Open(box[32:], nonce = BLAKE2b-192(box[0:32] || pk), box[0:32], sk).
func Verif_C10_SealAnonymous() {
	c10AbstractSalsa = true
	n := []int{0, 1, 40}[verifrt.Choose(0, 2)]
	pk := c10Arr32(verifrt.Bytes(32))
	pk0 := pk
	esk := c10Arr32(verifrt.Bytes(32))
	m := verifrt.Bytes(n)
	var out []byte
	pl := 0
	switch verifrt.Choose(0, 2) {
	case 1:
		out = verifrt.Bytes(3)
		pl = 3
	case 2:
		out = verifrt.Bytes(3 + 200)[:3]
		pl = 3
	}
	prefix := append([]byte{}, out...)
	fail := verifrt.Choose(0, 1) == 1
	got, err := SealAnonymous(out, m, &pk, &c10Reader{data: append([]byte{}, esk[:]...), fail: fail})
	if fail {
		verifrt.Assert(err != nil && got == nil, "reader failure is returned")
		verifrt.Reach("anon-randfail")
		return
	}
	verifrt.Assert(err == nil, "no error")
	base := [32]byte{9}
	epk := c10X25519(&esk, &base)
	nonce := c10Arr24(c10Blake2b192(append(append([]byte{}, epk[:]...), pk0[:]...)))
	k := c10BeforeNM(&pk0, &esk)
	sealed := secretbox.Seal(nil, m, &nonce, &k)
	verifrt.Assert(len(got) == pl+AnonymousOverhead+n && AnonymousOverhead == 48, "len = len(out) + 48 + len(m)")
	for i := 0; i < pl; i++ {
		verifrt.Assert(got[i] == prefix[i], "appends to out")
	}
	for i := range epk {
		verifrt.Assert(got[pl+i] == epk[i], "ephemeral public key first")
	}
	for i := range sealed {
		verifrt.Assert(got[pl+32+i] == sealed[i], "then crypto_box(m, BLAKE2b-192(epk || pk), pk, esk)")
	}
	for i := range pk {
		verifrt.Assert(pk[i] == pk0[i], "recipient key not modified")
	}
	verifrt.Observe("sealed", got)
	verifrt.Reach("anon-ok")
}

// Verif_C10_OpenAnonymous: see Verif_C10_SealAnonymous; lengths {0, 47, 48, 49, 90}.
func Verif_C10_OpenAnonymous() {
	c10AbstractSalsa = true
	bl := []int{0, 47, 48, 49, 90}[verifrt.Choose(0, 4)]
	pk := c10Arr32(verifrt.Bytes(32))
	sk := c10Arr32(verifrt.Bytes(32))
	box := verifrt.Bytes(bl)
	genuine := bl >= 48 && verifrt.Choose(0, 1) == 1
	if genuine {
		// constructively valid tag (computed with the same primitives: UFs under the engine,
		// the real ones natively), so that the accepting path exists in native replay too
		epk := c10Arr32(box[:32])
		nonce := c10Arr24(c10Blake2b192(append(append([]byte{}, epk[:]...), pk[:]...)))
		k := c10BeforeNM(&epk, &sk)
		tag := c10Tag(box[48:], &nonce, &k)
		copy(box[32:48], tag[:])
	}
	gotM, gotOK := OpenAnonymous(nil, box, &pk, &sk)
	if bl < 48 {
		verifrt.Assert(!gotOK && gotM == nil, "shorter than epk + tag is rejected")
		verifrt.Reach("oanon-short")
		return
	}
	epk := c10Arr32(box[:32])
	nonce := c10Arr24(c10Blake2b192(append(append([]byte{}, epk[:]...), pk[:]...)))
	k := c10BeforeNM(&epk, &sk)
	wantM, wantOK := secretbox.Open(nil, box[32:], &nonce, &k)
	if genuine {
		verifrt.Assert(wantOK, "a box carrying the genuine tag is accepted by crypto_box_open")
		verifrt.Reach("oanon-genuine")
	}
	verifrt.Assert(gotOK == wantOK && len(gotM) == len(wantM), "acceptance = crypto_box_open with derived nonce")
	for i := range wantM {
		verifrt.Assert(gotM[i] == wantM[i], "plaintext")
	}
	if wantOK {
		verifrt.Reach("oanon-accept")
	} else {
		verifrt.Reach("oanon-reject")
	}
}

// c10RTLens: message lengths of the constructive round-trip harnesses (empty message, around
// the 16-byte tag size, the 32-byte first-block split and the 64-byte block boundary).
var c10RTLens = []int{0, 1, 15, 16, 17, 31, 32, 33, 64, 65}

// c10Diff ORs the byte differences of two equally long slices (one solver query instead of one
// per byte).
func c10Diff(a, b []byte) (d byte) {
	for i := range a {
		d |= a[i] ^ b[i]
	}
	return
}

// c10AssumeDH states Diffie-Hellman symmetry for the two X25519 applications of one exchange:
// X25519(a, X25519(b, 9)) = X25519(b, X25519(a, 9)). A fact about the curve (holds natively for
// the real function), an explicit ASSUMPTION about the uninterpreted function under the engine.
func c10AssumeDH(a, aPub, b, bPub *[32]byte) {
	x := c10X25519(a, bPub)
	y := c10X25519(b, aPub)
	for i := range x {
		verifrt.Assume(x[i] == y[i])
	}
}

// Verif_C10_AnonymousRoundTrip (constructive, replays natively with the real primitives):
// recipient key pair (rsk symbolic, rpk = X25519(rsk, 9)); box := SealAnonymous(nil, m, rpk, rand)
// with rand handing out a symbolic ephemeral secret; then OpenAnonymous(nil, box, rpk, rsk) must
// succeed and return m, for every message length in c10RTLens — in particular the EMPTY message
// (48-byte sealed box). DH symmetry for this exchange is assumed (c10AssumeDH).
func Verif_C10_AnonymousRoundTrip() {
	c10AbstractSalsa = true
	n := c10RTLens[verifrt.Choose(0, len(c10RTLens)-1)]
	rsk := c10Arr32(verifrt.Bytes(32))
	var rpk [32]byte
	curve25519.ScalarBaseMult(&rpk, &rsk)
	esk := c10Arr32(verifrt.Bytes(32))
	var epk [32]byte
	curve25519.ScalarBaseMult(&epk, &esk)
	c10AssumeDH(&esk, &epk, &rsk, &rpk)
	m := verifrt.Bytes(n)
	box, err := SealAnonymous(nil, m, &rpk, &c10Reader{data: append([]byte{}, esk[:]...)})
	verifrt.Assert(err == nil && len(box) == n+AnonymousOverhead, "SealAnonymous succeeds, len = len(m) + 48")
	got, ok := OpenAnonymous(nil, box, &rpk, &rsk)
	verifrt.Assert(ok, "OpenAnonymous accepts SealAnonymous's output (incl. the empty message)")
	verifrt.Assert(len(got) == n, "opened length = message length")
	verifrt.Assert(c10Diff(got, m) == 0, "OpenAnonymous(SealAnonymous(m)) = m")
	verifrt.Reach("anon-roundtrip")
}

// Verif_C10_BoxRoundTrip (constructive): two key pairs; box := Seal(nil, m, nonce, bPub, aPriv);
// Open(nil, box, nonce, aPub, bPriv) — the OTHER party's view — succeeds and returns m, also via
// Precompute + OpenAfterPrecomputation; lengths c10RTLens incl. the empty message (16-byte box).
// DH symmetry assumed (c10AssumeDH).
func Verif_C10_BoxRoundTrip() {
	c10AbstractSalsa = true
	n := c10RTLens[verifrt.Choose(0, len(c10RTLens)-1)]
	ask := c10Arr32(verifrt.Bytes(32))
	bsk := c10Arr32(verifrt.Bytes(32))
	var apk, bpk [32]byte
	curve25519.ScalarBaseMult(&apk, &ask)
	curve25519.ScalarBaseMult(&bpk, &bsk)
	c10AssumeDH(&ask, &apk, &bsk, &bpk)
	nonce := c10Arr24(verifrt.Bytes(24))
	m := verifrt.Bytes(n)
	box := Seal(nil, m, &nonce, &bpk, &ask)
	verifrt.Assert(len(box) == n+Overhead, "len = len(m) + 16")
	got, ok := Open(nil, box, &nonce, &apk, &bsk)
	verifrt.Assert(ok && len(got) == n, "the peer's Open accepts Seal's output (incl. the empty message)")
	verifrt.Assert(c10Diff(got, m) == 0, "Open(Seal(m)) = m across the two parties")
	var shared [32]byte
	Precompute(&shared, &apk, &bsk)
	got2, ok2 := OpenAfterPrecomputation(nil, box, &nonce, &shared)
	verifrt.Assert(ok2 && len(got2) == n, "OpenAfterPrecomputation accepts it too")
	verifrt.Assert(c10Diff(got2, m) == 0, "OpenAfterPrecomputation(Seal(m)) = m")
	verifrt.Reach("box-roundtrip")
}
