// gosym: symbolic executor for Go SSA. Loads a package of /repo (working tree) with harness
// files injected by overlay, runs one or more harness functions symbolically and writes a
// JSON result per harness.
package main

import (
	"crypto/sha256"
	"encoding/hex"
	"encoding/json"
	"flag"
	"fmt"
	"go/ast"
	"os"
	"path/filepath"
	"regexp"
	"sort"
	"strings"
	"time"

	"golang.org/x/tools/go/packages"
	"golang.org/x/tools/go/ssa"
	"golang.org/x/tools/go/ssa/ssautil"

	"verif/engine/exec"
	"verif/engine/smt"
)

func main() {
	repo := flag.String("repo", "/repo", "repository root")
	pkgRel := flag.String("pkg", "", "package dir relative to repo, e.g. scrypt")
	defHarness := "/verif/harness"
	if exe, err := os.Executable(); err == nil {
		// bin/gosym lives next to harness/ (also inside git worktrees of the framework)
		if d := filepath.Join(filepath.Dir(filepath.Dir(exe)), "harness"); dirExists(d) {
			defHarness = d
		}
	}
	harnessDir := flag.String("harness", defHarness, "harness root")
	run := flag.String("run", ".*", "regexp of harness function names (Verif_...)")
	out := flag.String("out", "", "output JSON file (default stdout)")
	timeout := flag.Int("solver-timeout", 20000, "per-query solver timeout ms")
	solvers := flag.String("solvers", "z3-new,z3-int,cvc5,z3r", "solver portfolio order (z3-int = integer translation for arithmetic-only queries; z3-new / z3 = incremental push/pop instances with a quarter of the time limit; cvc5; z3r / z3-newr = one-shot after reset)")
	unwind := flag.Int("unwind", 64, "default unwind bound")
	maxSteps := flag.Int("max-steps", 20000000, "per-path step limit")
	maxPaths := flag.Int("max-paths", 200000, "path limit per harness")
	concrete := flag.Bool("concrete", false, "concrete mode (translator cross-check)")
	seed := flag.Uint64("seed", 1, "seed for concrete mode")
	dump := flag.String("dump", "", "directory to dump SMT queries")
	tlimit := flag.Int("time-limit", 0, "per-harness wall limit in seconds (0 = none)")
	list := flag.Bool("list", false, "list harness functions and exit")
	tags := flag.String("tags", "verif,purego,math_big_pure_go", "build tags used to load /repo and std for symbolic execution")
	stopOnSat := flag.Int("stop-on-sat", 0, "1: end a path at its first refuted assertion (native Assert semantics) instead of continuing under the assumption that it holds")
	flag.Parse()
	exec.StopOnSat = *stopOnSat != 0

	t0 := time.Now()
	os.Setenv("PATH", "/opt/veriftools/go1.26.8/bin:"+os.Getenv("PATH"))
	os.Setenv("GOTOOLCHAIN", "local")
	os.Setenv("GOFLAGS", "-mod=mod")
	os.Setenv("GOPROXY", "off")
	os.Setenv("GOSUMDB", "off")
	overlay := map[string][]byte{}
	addOverlay := func(srcDir, dstDir string) {
		ents, err := os.ReadDir(srcDir)
		if err != nil {
			return
		}
		for _, e := range ents {
			if e.IsDir() || !strings.HasSuffix(e.Name(), ".go") || strings.HasSuffix(e.Name(), "_test.go") {
				continue
			}
			b, err := os.ReadFile(filepath.Join(srcDir, e.Name()))
			if err != nil {
				fatal(err)
			}
			overlay[filepath.Join(dstDir, e.Name())] = b
		}
	}
	addOverlay(filepath.Join(*harnessDir, "internal/verifrt"), filepath.Join(*repo, "internal/verifrt"))
	addOverlay(filepath.Join(*harnessDir, *pkgRel), filepath.Join(*repo, *pkgRel))

	cfg := &packages.Config{
		Mode:       packages.LoadAllSyntax,
		Dir:        *repo,
		Overlay:    overlay,
		BuildFlags: []string{"-tags=" + *tags},
		Env: append(os.Environ(), "GOFLAGS=-mod=mod", "GOPROXY=off", "GOSUMDB=off", "GOTOOLCHAIN=local",
			"PATH=/opt/veriftools/go1.26.8/bin:"+os.Getenv("PATH")),
	}
	pkgs, err := packages.Load(cfg, "./"+*pkgRel, "./internal/verifrt")
	if err != nil {
		fatal(err)
	}
	nerr := 0
	packages.Visit(pkgs, nil, func(p *packages.Package) {
		for _, e := range p.Errors {
			if strings.HasPrefix(p.PkgPath, "golang.org/x/crypto") {
				fmt.Fprintln(os.Stderr, "load error:", e)
				nerr++
			}
		}
	})
	if nerr > 0 {
		fmt.Println("GOSYM-LOAD-ERROR")
		os.Exit(2)
	}
	prog, spkgs := ssautil.AllPackages(pkgs, ssa.InstantiateGenerics)
	prog.Build()
	main := spkgs[0]
	mainPkg := pkgs[0]
	for i, p := range pkgs {
		if strings.HasSuffix(p.PkgPath, "/"+*pkgRel) || p.PkgPath == "golang.org/x/crypto/"+*pkgRel {
			main = spkgs[i]
			mainPkg = p
		}
	}
	if os.Getenv("GOSYM_DEBUG") != "" {
		for _, p := range pkgs {
			fmt.Fprintln(os.Stderr, "pkg", p.PkgPath, p.GoFiles)
		}
	}
	if main == nil {
		fatal(fmt.Errorf("no SSA package"))
	}
	loadMs := time.Since(t0).Milliseconds()

	// stubs: //verif:stub <target>
	stubs := map[string]*ssa.Function{}
	docs := map[string]string{}
	for _, f := range mainPkg.Syntax {
		fname := mainPkg.Fset.Position(f.Pos()).Filename
		if !strings.Contains(filepath.Base(fname), "zz_verif") {
			continue
		}
		for _, d := range f.Decls {
			fd, ok := d.(*ast.FuncDecl)
			if !ok || fd.Doc == nil {
				continue
			}
			docs[fd.Name.Name] = strings.TrimSpace(fd.Doc.Text())
			for _, c := range fd.Doc.List {
				if strings.HasPrefix(c.Text, "//verif:stub ") {
					target := strings.TrimSpace(strings.TrimPrefix(c.Text, "//verif:stub "))
					fn := main.Func(fd.Name.Name)
					if fn == nil {
						fatal(fmt.Errorf("stub %s: function not found", fd.Name.Name))
					}
					if prev, dup := stubs[target]; dup {
						// harness files of two properties in one package: the later file used to win silently
						fatal(fmt.Errorf("stub target %s has two stubs (%s and %s): register one per package", target, prev.Name(), fn.Name()))
					}
					stubs[target] = fn
				}
			}
		}
	}

	re := regexp.MustCompile(*run)
	var names []string
	for name, m := range main.Members {
		if _, ok := m.(*ssa.Function); ok && strings.HasPrefix(name, "Verif_") && re.MatchString(name) {
			names = append(names, name)
		}
	}
	sort.Strings(names)
	if *list {
		for _, n := range names {
			fmt.Println(n)
		}
		return
	}
	if len(names) == 0 {
		fatal(fmt.Errorf("no harness matches %q in %s", *run, *pkgRel))
	}

	solver := smt.New(*timeout, strings.Split(*solvers, ","))
	solver.DumpDir = *dump
	defer solver.Close()

	type outDoc struct {
		Pkg      string
		LoadMs   int64
		Results  []*exec.Result
		FileHash map[string]string
		Stubs    []string
	}
	doc := outDoc{Pkg: *pkgRel, LoadMs: loadMs, FileHash: map[string]string{}}
	for t := range stubs {
		doc.Stubs = append(doc.Stubs, t+" => "+stubs[t].Name())
	}
	sort.Strings(doc.Stubs)
	for _, n := range names {
		sh := exec.NewShared(prog, solver, stubs)
		opt := exec.Options{Unwind: *unwind, MaxSteps: *maxSteps, MaxPaths: *maxPaths, Concrete: *concrete, Seed: *seed}
		if *tlimit > 0 {
			opt.TimeLimit = time.Duration(*tlimit) * time.Second
		}
		r := exec.Run(sh, main.Func(n), opt)
		r.Doc = docs[n]
		doc.Results = append(doc.Results, r)
		for _, f := range r.Funcs {
			_ = f
		}
	}
	// hash source files of the package under test and any /repo file whose functions were encoded
	files := map[string]bool{}
	for _, r := range doc.Results {
		for _, fname := range r.Funcs {
			_ = fname
		}
	}
	packages.Visit(pkgs, nil, func(p *packages.Package) {
		if !strings.HasPrefix(p.PkgPath, "golang.org/x/crypto") {
			return
		}
		for _, f := range p.GoFiles {
			files[f] = true
		}
	})
	for f := range files {
		b, err := os.ReadFile(f)
		if err != nil {
			if ob, ok := overlay[f]; ok {
				b = ob
			} else {
				continue
			}
		}
		h := sha256.Sum256(b)
		doc.FileHash[strings.TrimPrefix(f, *repo+"/")] = hex.EncodeToString(h[:8])
	}
	enc, _ := json.MarshalIndent(doc, "", " ")
	if *out == "" {
		os.Stdout.Write(enc)
		fmt.Println()
	} else {
		if err := os.WriteFile(*out, enc, 0o644); err != nil {
			fatal(err)
		}
	}
}

func dirExists(d string) bool {
	st, err := os.Stat(d)
	return err == nil && st.IsDir()
}

func fatal(err error) {
	fmt.Fprintln(os.Stderr, "gosym:", err)
	fmt.Println("GOSYM-FATAL")
	os.Exit(2)
}
