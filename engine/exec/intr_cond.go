package exec

// (*sync.Cond).Wait as an environment ("rely") step.
//
// The engine executes one logical thread. A harness that wants to get past a Cond.Wait
// registers the step the *environment* may take while the caller is parked:
//
//	verifrt.OnWait(func() { ... havoc of the shared state that other goroutines may perform,
//	                            typically by calling the real mutators with symbolic arguments ... })
//
// Wait then (1) releases c.L, (2) runs the registered closure (which may itself take and
// release c.L), (3) re-acquires c.L and returns. Spurious wake-ups are allowed by sync.Cond's
// contract (callers must re-check their condition in a loop), so returning after an arbitrary
// environment step is a sound over-approximation of every schedule in which the environment's
// steps are among those the closure can perform. Each path may pass through at most
// waitBound (default 2, verifrt.WaitBound(n)) waits; a further Wait ends the path as outside
// the claim (Assume false), which bounds the number of environment steps considered.
//
// Opt-in: when no closure is registered Wait falls through to defaultCondWait.

import (
	"fmt"
	"go/types"
)

type condEnv struct {
	f     Value // *Closure registered by verifrt.OnWait (nil: none)
	n     int   // waits taken on this path
	bound int
}

// One Interp exists per explored path and paths are explored sequentially, so the state of the
// current path is kept here (keyed by the Interp so that a stale entry is never used).
var condEnvOf = map[*Interp]*condEnv{}

func condEnvFor(in *Interp, create bool) *condEnv {
	if st, ok := condEnvOf[in]; ok {
		return st
	}
	if !create {
		return nil
	}
	for k := range condEnvOf { // drop the states of finished paths
		delete(condEnvOf, k)
	}
	st := &condEnv{bound: 2}
	condEnvOf[in] = st
	return st
}

// defaultCondWait is the behaviour of (*sync.Cond).Wait when no environment step has been
// registered: the thread model of threads.go (releases c.L, parks the running thread until a
// Signal/Broadcast, re-acquires c.L). With goroutines off, or when no other thread can make
// progress, that ends the path as BLOCKED, as a single-thread execution must: nobody can signal.
func defaultCondWait(in *Interp, a []Value, fr *Frame) Value {
	return in.condWait(a)
}

// condLocker returns the *sync.Mutex / *sync.RWMutex pointer stored in c.L.
func condLocker(in *Interp, c Value) Pointer {
	p, ok := c.(Pointer)
	if !ok || p.Obj == nil {
		in.goPanicRuntime("invalid memory address or nil pointer dereference")
	}
	st, ok := in.load(p).(*Struct)
	if !ok {
		panic(in.unsupported("sync.Cond value of unexpected shape"))
	}
	for _, f := range st.F {
		if iv, ok := f.(Iface); ok {
			if lp, ok := iv.V.(Pointer); ok && iv.T != nil {
				return lp
			}
			if iv.T == nil {
				in.goPanicRuntime("invalid memory address or nil pointer dereference (Cond.L is nil)")
			}
		}
	}
	panic(in.unsupported("sync.Cond.L is not a pointer to a mutex"))
}

func init() {
	RegisterIntrinsic(rt+"OnWait", func(in *Interp, a []Value, _ *Frame) Value {
		st := condEnvFor(in, true)
		st.f = a[0]
		if c, ok := a[0].(*Closure); ok && c == nil {
			st.f = nil
		}
		return Tuple(nil)
	})
	RegisterIntrinsic(rt+"WaitBound", func(in *Interp, a []Value, _ *Frame) Value {
		condEnvFor(in, true).bound = in.toInt(a[0], "WaitBound")
		return Tuple(nil)
	})
	RegisterIntrinsic("(*sync.Cond).Wait", func(in *Interp, a []Value, fr *Frame) Value {
		st := condEnvFor(in, false)
		if st == nil || st.f == nil {
			return defaultCondWait(in, a, fr)
		}
		if st.n >= st.bound {
			panic(pathEnd{endAssume, fmt.Sprintf("more than %d Cond.Wait environment steps on one path (outside the claim) at %s", st.bound, in.Prog.Fset.Position(in.curPos))})
		}
		st.n++
		l := condLocker(in, a[0])
		in.condEvents = append(in.condEvents, "wait")
		// Lock/Unlock are the thread-aware mutexOp once NewShared has run installThreadIntrinsics
		// (also with goroutines off), so c.L must be released and re-taken through it: the older
		// lockOp only counts and would leave the mutex write-locked for the environment step.
		in.mutexOp(l, 'U')
		in.call(st.f, nil, fr)
		in.mutexOp(l, 'L')
		return Tuple(nil)
	})
	// sync.NewCond with the real field layout (noCopy, L, notify, checker) so that c.L works.
	RegisterIntrinsic("sync.NewCond", func(in *Interp, a []Value, _ *Frame) Value {
		t := in.curFn.Signature.Results().At(0).Type().(*types.Pointer).Elem()
		z, ok := in.zero(t).(*Struct)
		if !ok || len(z.F) < 2 {
			panic(in.unsupported("sync.Cond of unexpected shape"))
		}
		z.F[1] = a[0]
		return Pointer{Obj: in.newObject(z, t)}
	})
}
