package exec

import (
	"fmt"
	"strings"

	"verif/engine/term"
)

// ufTableLoad recognises an array whose element i is the term f(i) for one unary uninterpreted
// function f (a harness fills a table with verifrt.UF32("f", uint32(i)) to model "arbitrary
// table contents"). A load at a symbolic index idx is then exactly f(idx) for every in-range
// idx (the bounds check has already put idx < len into the path condition), which replaces a
// len-deep ite chain by one application. Returns nil if the array does not have that shape.
func ufTableLoad(a *Array, idx *term.Term) *term.Term {
	n := len(a.E)
	if n < 2 {
		return nil
	}
	first, ok := a.E[0].(*term.Term)
	if !ok || first.K != term.KUF || len(first.Args) != 1 {
		return nil
	}
	aw := first.Args[0].W
	if aw <= 0 || aw > 64 {
		return nil
	}
	for i, e := range a.E {
		t, ok := e.(*term.Term)
		if !ok || t.K != term.KUF || t.Name != first.Name || t.W != first.W || len(t.Args) != 1 {
			return nil
		}
		v, ok := t.Args[0].U64()
		if !ok || t.Args[0].W != aw || v != uint64(i) {
			return nil
		}
	}
	base := strings.TrimSuffix(first.Name, fmt.Sprintf("_%d__%d", aw, first.W))
	if base == first.Name {
		return nil
	}
	var arg *term.Term
	switch {
	case idx.W == aw:
		arg = idx
	case idx.W < aw:
		arg = term.Zext(idx, aw)
	default:
		arg = term.Extract(idx, aw-1, 0)
	}
	u := term.UF(base, first.W, arg)
	if u.Name != first.Name {
		return nil
	}
	return u
}
