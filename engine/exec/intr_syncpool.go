package exec

import (
	"go/types"
)

// sync.Pool model: the pool is always empty. Get returns New() (or nil), Put drops the value.
// This is one of the behaviours the sync.Pool contract allows (any item may be removed at any
// time), and the only one that does not depend on scheduling.
func init() {
	RegisterIntrinsic("(*sync.Pool).Get", func(in *Interp, a []Value, fr *Frame) Value {
		p := a[0].(Pointer)
		if p.Obj == nil {
			in.goPanicRuntime("invalid memory address or nil pointer dereference")
		}
		idx := -1
		if recv := in.curFn.Signature.Recv(); recv != nil {
			if pt, ok := recv.Type().Underlying().(*types.Pointer); ok {
				if st, ok := pt.Elem().Underlying().(*types.Struct); ok {
					for i := 0; i < st.NumFields(); i++ {
						if st.Field(i).Name() == "New" {
							idx = i
						}
					}
				}
			}
		}
		if idx < 0 {
			panic(in.unsupported("sync.Pool: field New not found"))
		}
		path := append(append([]PathElem(nil), p.Path...), PathElem{I: idx})
		fv := in.load(Pointer{Obj: p.Obj, Path: path})
		if c, ok := fv.(*Closure); ok && c != nil {
			return in.call(c, nil, fr)
		}
		return Iface{}
	})
	RegisterIntrinsic("(*sync.Pool).Put", func(in *Interp, a []Value, _ *Frame) Value { return Tuple(nil) })
}
