package exec

import (
	"fmt"
	"go/constant"
	"go/token"
	"go/types"
	"math/big"
	"os"
	"strings"
	"time"

	"golang.org/x/tools/go/ssa"
	"verif/engine/smt"
	"verif/engine/term"
)

// Decision is one recorded fork choice.
type Decision struct {
	Val    uint64 // branch: 0/1; concretize: the value
	Taken  bool   // concretize: value taken (true) or excluded (false)
	Forced bool   // other side infeasible: nothing added to PC
	Kind   byte   // 'b' branch, 'c' concretize
	Model  map[string]*big.Int // a model of the path condition right after this decision (alts only)
}

// adoptModel installs the model carried by the last decision of the replayed prefix.
func (in *Interp) adoptModel(d Decision) {
	if d.Model == nil || in.pos != len(in.prefix) {
		return
	}
	for _, c := range in.pc {
		if v, ok := term.Eval(c, d.Model); !ok || v.Sign() == 0 {
			return
		}
	}
	in.model = d.Model
}

type endKind int

const (
	endAssume endKind = iota
	endUnsupported
	endUnwind
	endBlocked
	endSteps
	endInfeasible
)

type pathEnd struct {
	kind endKind
	msg  string
}

// GoPanic is a Go-level panic travelling through interpreted frames.
type GoPanic struct {
	V     Value
	Pos   string
	Stack []string
}

type deferred struct {
	fn   Value
	args []Value
	inv  *ssa.CallCommon
}

type Frame struct {
	fn        *ssa.Function
	env       map[ssa.Value]Value
	defers    []deferred
	panicking *GoPanic
	deferOf   *Frame // set on frames of deferred calls
	unwind    map[ssa.Instruction]int
	results   Value
	caller    *Frame
}

// Shared holds state that persists across paths.
type Shared struct {
	Prog      *ssa.Program
	Globals   map[*ssa.Global]*Object
	InitDone  map[*ssa.Package]bool
	Stubs     map[string]*ssa.Function
	Solver    *smt.Solver
	ModPrefix string
	nextObj   int
	FuncsSeen map[string]bool
	Sizes     types.Sizes
	typeIDs   map[string]int
	// query cache
	qcache map[string]smt.Result
	// stats
	Queries     int
	CacheHits   int
	Transitions int
	InitErrors  []string
}

type Assertion struct {
	Label   string
	Verdict string // unsat (holds) | sat (violated) | unknown | trivial
	Solver  string
	Ms      int64
	PCSize  int
	Values  []string // model in symbol-creation order (violations)
	Symbols []string
	Pos     string
	Path    int
	Sym     bool
}

type Interp struct {
	*Shared
	prefix    []Decision
	trace     []Decision
	pos       int
	pc        []*term.Term
	pcVars    []term.Bits
	nsym      int
	syms      []*term.Term
	unwindN   int
	steps     int
	maxSteps  int
	journal   map[*Object]Value
	initDepth int
	alts      [][]Decision
	Asserts   []Assertion
	Reached   map[string]bool
	callDepth int
	pathID    int
	concrete  bool
	rnd       uint64
	Events    []string
	curPos    token.Pos
	stack     []string
	nextMap   int
	goCalls   []string
	assumes   int
	locks     map[string]int
	onceDone  map[string]bool
	condEvents []string
	model     map[string]*big.Int // a model of the current PC, or nil
	makeLimit int
	curFn     *ssa.Function // function whose intrinsic is being evaluated
	ts        threadState
	mlocks    map[string]*lockState
	condGen   map[string]int
	condWaiters  map[string][]int
	condReleased map[string]map[int]bool
	wgCount   map[string]int
	asmMulHi  string // non-empty: MULQ's high word is this uninterpreted function (asm_amd64.go)
	asmMulLo  string // non-empty: low product words are this uninterpreted function
}

var stringType = types.Typ[types.String]

func (in *Interp) unsupported(msg string) pathEnd {
	where := ""
	if in.curPos.IsValid() {
		where = " at " + in.Prog.Fset.Position(in.curPos).String()
	}
	st := ""
	if n := len(in.stack); n > 0 {
		lo := n - 4
		if lo < 0 {
			lo = 0
		}
		st = " in " + strings.Join(in.stack[lo:], " > ")
	}
	return pathEnd{endUnsupported, msg + where + st}
}

// ---------- solver plumbing ----------

func qkey(ts []*term.Term) string {
	var sb strings.Builder
	for _, t := range ts {
		fmt.Fprintf(&sb, "%d,", t.ID)
	}
	return sb.String()
}

// slice returns the constraints of the path condition that share symbols (transitively) with
// extra (constraint independence), in path-condition order, and whether that is all of them.
func (in *Interp) slice(extra *term.Term) ([]*term.Term, bool) {
	vs := append(term.Bits{}, term.VarSet(extra)...)
	used := make([]bool, len(in.pc))
	n := 0
	for changed := true; changed; {
		changed = false
		for i := range in.pc {
			if used[i] {
				continue
			}
			cv := in.pcVars[i]
			if len(cv) == 0 || cv.Intersects(vs) {
				used[i] = true
				n++
				vs = vs.Or(cv)
				changed = true
			}
		}
	}
	out := make([]*term.Term, 0, n+1)
	for i, c := range in.pc {
		if used[i] {
			out = append(out, c)
		}
	}
	return out, n == len(in.pc)
}

// check decides satisfiability of pc AND extra. Only the constraints that share symbols with
// extra are sent to the solver; a returned model is always a model of the whole path condition
// (the slice's model merged into the current full model).
func (in *Interp) check(extra *term.Term, wantModel bool) (smt.Result, map[string]*big.Int, string) {
	if !Deadline.IsZero() && time.Now().After(Deadline) {
		// the harness' time budget is used up: end this path so that everything found so far
		// (in particular refuted assertions) is still written out; the run is flagged incomplete
		DeadlineHit = true
		panic(pathEnd{endSteps, "time limit reached while deciding a query"})
	}
	in.Queries++
	full := func() (smt.Result, map[string]*big.Int, string) {
		q := make([]*term.Term, 0, len(in.pc)+1)
		q = append(q, in.pc...)
		if extra != nil {
			q = append(q, extra)
		}
		return in.Solver.Check(q, wantModel)
	}
	if extra == nil || noSlice {
		return full()
	}
	sl, all := in.slice(extra)
	res, m, note := in.Solver.Check(append(sl, extra), wantModel)
	if res != smt.Sat || !wantModel || all {
		return res, m, note
	}
	if in.model != nil {
		merged := make(map[string]*big.Int, len(in.model)+len(m))
		for k, v := range in.model {
			merged[k] = v
		}
		for k, v := range m {
			merged[k] = v
		}
		return res, merged, note
	}
	in.Queries++
	return full()
}

var noSlice = os.Getenv("GOSYM_NOSLICE") != ""

// Deadline is the wall-clock limit of the current harness run (zero: none); DeadlineHit records
// that a path was cut because of it.
var (
	Deadline    time.Time
	DeadlineHit bool
)

func (in *Interp) addPC(c *term.Term) {
	if c.K == term.KTrue {
		return
	}
	if in.model != nil {
		if v, ok := term.Eval(c, in.model); !ok || v.Sign() == 0 {
			// repair the full model on the slice that c touches
			res, m, _ := in.check(c, true)
			switch res {
			case smt.Sat:
				in.model = m
			case smt.Unsat:
				in.pc = append(in.pc, c)
				in.pcVars = append(in.pcVars, term.VarSet(c))
				panic(pathEnd{endInfeasible, "path condition became unsatisfiable"})
			default:
				in.model = nil
			}
		}
	}
	in.pc = append(in.pc, c)
	in.pcVars = append(in.pcVars, term.VarSet(c))
}

// decide resolves a symbolic boolean by forking.
func (in *Interp) decide(cond *term.Term, site ssa.Instruction, fr *Frame) bool {
	if b, ok := cond.BoolVal(); ok {
		return b
	}
	in.Transitions++
	if in.pos < len(in.prefix) {
		d := in.prefix[in.pos]
		in.pos++
		in.trace = append(in.trace, d)
		v := d.Val == 1
		if !d.Forced {
			if v {
				in.addPC(cond)
			} else {
				in.addPC(term.BNot(cond))
			}
			in.countUnwind(site, fr)
		}
		in.adoptModel(d)
		return v
	}
	// model reuse: a model of the current PC decides one side for free
	known := -1
	if in.model != nil {
		if v, ok := term.Eval(cond, in.model); ok {
			if v.Sign() != 0 {
				known = 1
			} else {
				known = 0
			}
		}
	}
	var rt, rf smt.Result
	var mt map[string]*big.Int
	if known == 1 {
		rt, mt = smt.Sat, in.model
	} else {
		rt, mt, _ = in.check(cond, true)
	}
	if rt == smt.Unsat {
		in.trace = append(in.trace, Decision{Val: 0, Forced: true, Kind: 'b'})
		in.pos++
		return false
	}
	var mf map[string]*big.Int
	if known == 0 {
		rf, mf = smt.Sat, in.model
	} else {
		rf, mf, _ = in.check(term.BNot(cond), true)
		if rf != smt.Sat {
			mf = nil
		}
	}
	if rf == smt.Unsat {
		d := Decision{Val: 1, Forced: true, Kind: 'b'}
		if rt == smt.Unknown {
			d.Forced = false
			in.addPC(cond)
		}
		in.trace = append(in.trace, d)
		in.pos++
		return true
	}
	if rt == smt.Sat && mt != nil {
		in.model = mt
	} else {
		in.model = nil
	}
	// both (possibly) feasible: fork
	alt := make([]Decision, len(in.trace)+1)
	copy(alt, in.trace)
	alt[len(in.trace)] = Decision{Val: 0, Kind: 'b', Model: mf}
	in.alts = append(in.alts, alt)
	in.trace = append(in.trace, Decision{Val: 1, Kind: 'b'})
	in.pos++
	in.addPC(cond)
	in.countUnwind(site, fr)
	return true
}

func (in *Interp) countUnwind(site ssa.Instruction, fr *Frame) {
	if site == nil || fr == nil {
		return
	}
	if fr.unwind == nil {
		fr.unwind = map[ssa.Instruction]int{}
	}
	fr.unwind[site]++
	if fr.unwind[site] > in.unwindN {
		panic(pathEnd{endUnwind, fmt.Sprintf("unwind bound %d exceeded at %s", in.unwindN, in.Prog.Fset.Position(site.Pos()))})
	}
}

// concretize forks over the feasible values of t (at most lim).
func (in *Interp) concretize(t *term.Term, what string) uint64 {
	if v, ok := t.U64(); ok {
		return v
	}
	const lim = 600
	for n := 0; ; n++ {
		if n > lim {
			panic(pathEnd{endUnwind, "concretize: more than 600 values for " + what})
		}
		in.Transitions++
		if in.pos < len(in.prefix) {
			d := in.prefix[in.pos]
			in.pos++
			in.trace = append(in.trace, d)
			c := term.Eq(t, term.Const(t.W, d.Val))
			if d.Taken {
				in.addPC(c)
				return d.Val
			}
			in.addPC(term.BNot(c))
			in.adoptModel(d)
			continue
		}
		model := in.model
		if model == nil {
			res, m, note := in.check(nil, true)
			if res == smt.Unsat {
				panic(pathEnd{endInfeasible, ""})
			}
			if res == smt.Unknown {
				panic(pathEnd{endUnsupported, "concretize: solver unknown for " + what + ": " + note})
			}
			model = m
			in.model = m
		}
		v := in.evalModel(t, model)
		// is any other value feasible? (decided now, so that no path is started just to find out)
		if rx, mx, _ := in.check(term.BNot(term.Eq(t, term.Const(t.W, v))), true); rx != smt.Unsat {
			if rx != smt.Sat {
				mx = nil
			}
			alt := make([]Decision, len(in.trace)+1)
			copy(alt, in.trace)
			alt[len(in.trace)] = Decision{Val: v, Taken: false, Kind: 'c', Model: mx}
			in.alts = append(in.alts, alt)
		}
		in.trace = append(in.trace, Decision{Val: v, Taken: true, Kind: 'c'})
		in.pos++
		in.addPC(term.Eq(t, term.Const(t.W, v)))
		return v
	}
}

// evalModel: evaluate t under the model by asking the solver-independent evaluator.
func (in *Interp) evalModel(t *term.Term, model map[string]*big.Int) uint64 {
	v, ok := term.Eval(t, model)
	if ok {
		return v.Uint64()
	}
	// term contains UF/table: ask solver for a value by equating with a fresh var
	in.nsym++
	fv := term.Var(fmt.Sprintf("cz%d_%d", in.nsym, t.W), t.W)
	res, m, _ := in.check(term.Eq(fv, t), true)
	if res != smt.Sat {
		panic(pathEnd{endUnsupported, "concretize: cannot obtain value"})
	}
	if x, ok := m[fv.Name]; ok {
		return x.Uint64()
	}
	return 0
}

func (in *Interp) newSym(w int) *term.Term {
	if in.initDepth > 0 {
		panic(in.unsupported("symbol created during package init"))
	}
	if in.concrete {
		v := in.splitmix()
		if w == 0 {
			return term.Bool(v&1 == 1)
		}
		return term.Const(w, v)
	}
	name := fmt.Sprintf("s%d_%d", len(in.syms), w)
	t := term.Var(name, w)
	in.syms = append(in.syms, t)
	return t
}

func (in *Interp) splitmix() uint64 {
	in.rnd += 0x9e3779b97f4a7c15
	z := in.rnd
	z = (z ^ (z >> 30)) * 0xbf58476d1ce4e5b9
	z = (z ^ (z >> 27)) * 0x94d049bb133111eb
	return z ^ (z >> 31)
}

// ---------- panics ----------

func (in *Interp) goPanic(v Value) {
	pos := ""
	if in.curPos.IsValid() {
		pos = in.Prog.Fset.Position(in.curPos).String()
	}
	st := append([]string{}, in.stack...)
	panic(&GoPanic{V: v, Pos: pos, Stack: st})
}

func (in *Interp) runtimeErrorType() types.Type {
	if p := in.Prog.ImportedPackage("runtime"); p != nil {
		if m := p.Members["errorString"]; m != nil {
			return m.Type()
		}
	}
	return types.Typ[types.String]
}

func (in *Interp) goPanicRuntime(msg string) {
	in.goPanic(Iface{T: in.runtimeErrorType(), V: Str{S: msg}})
}

// ---------- execution ----------

func (in *Interp) constValue(c *ssa.Const) Value {
	t := c.Type()
	if c.Value == nil {
		return in.zero(t)
	}
	if w, _, ok := intWidth(t); ok {
		if v, exact := constant.Uint64Val(constant.ToInt(c.Value)); exact {
			return term.Const(w, v)
		}
		if v, exact := constant.Int64Val(constant.ToInt(c.Value)); exact {
			return term.Const(w, uint64(v))
		}
		panic(in.unsupported("constant out of range"))
	}
	b, ok := t.Underlying().(*types.Basic)
	if !ok {
		// constant of type parameter / generic; fall back
		return in.zero(t)
	}
	switch {
	case b.Info()&types.IsBoolean != 0:
		return term.Bool(constant.BoolVal(c.Value))
	case b.Info()&types.IsString != 0:
		return Str{S: constant.StringVal(c.Value)}
	case b.Info()&(types.IsFloat|types.IsComplex) != 0:
		f, _ := constant.Float64Val(c.Value)
		return Opaque{fmt.Sprintf("float:%g", f)}
	}
	panic(in.unsupported("constant of type " + t.String()))
}

func (in *Interp) get(fr *Frame, v ssa.Value) Value {
	switch x := v.(type) {
	case *ssa.Const:
		return in.constValue(x)
	case *ssa.Global:
		return Pointer{Obj: in.global(x)}
	case *ssa.Function:
		return &Closure{Fn: x}
	case *ssa.Builtin:
		return x
	}
	r, ok := fr.env[v]
	if !ok {
		panic(fmt.Sprintf("engine: no value for %s (%T) in %s", v.Name(), v, fr.fn))
	}
	return r
}

func (in *Interp) global(g *ssa.Global) *Object {
	if o, ok := in.Globals[g]; ok {
		return o
	}
	in.ensureInit(g.Pkg)
	if o, ok := in.Globals[g]; ok {
		return o
	}
	return in.allocGlobal(g)
}

func (in *Interp) allocGlobal(g *ssa.Global) *Object {
	in.initDepth++
	et := g.Type().(*types.Pointer).Elem()
	o := in.newObject(in.zero(et), et)
	o.Name = g.String()
	in.initDepth--
	in.Globals[g] = o
	return o
}

// ensureInit runs the package initialiser once (lazily, at first touch of the package).
func (in *Interp) ensureInit(p *ssa.Package) {
	if p == nil || in.InitDone[p] {
		return
	}
	in.InitDone[p] = true
	for _, m := range p.Members {
		if g, ok := m.(*ssa.Global); ok {
			if _, ok := in.Globals[g]; !ok {
				in.allocGlobal(g)
			}
		}
	}
	initFn := p.Func("init")
	if initFn == nil || len(initFn.Blocks) == 0 {
		return
	}
	in.initDepth++
	savedPos, savedStack := in.curPos, in.stack
	func() {
		defer func() {
			if r := recover(); r != nil {
				msg := fmt.Sprintf("init of %s incomplete: %v", p.Pkg.Path(), describeEnd(r))
				if len(in.InitErrors) < 50 {
					in.InitErrors = append(in.InitErrors, msg)
				}
			}
		}()
		in.call(&Closure{Fn: initFn}, nil, nil)
	}()
	in.curPos, in.stack = savedPos, savedStack
	in.initDepth--
}

func describeEnd(r interface{}) string {
	switch x := r.(type) {
	case pathEnd:
		return x.msg
	case *GoPanic:
		return "panic: " + describe(x.V) + " @" + x.Pos
	}
	return fmt.Sprint(r)
}

// call invokes a function value.
func (in *Interp) call(fv Value, args []Value, caller *Frame) Value {
	switch f := fv.(type) {
	case *Closure:
		if f == nil {
			in.goPanicRuntime("call of nil function")
		}
		return in.callFn(f.Fn, args, f.Env, caller, nil)
	case *ssa.Builtin:
		return in.builtin(f, args, nil)
	}
	panic(in.unsupported(fmt.Sprintf("call of %T", fv)))
}

func (in *Interp) callFn(fn *ssa.Function, args []Value, env []Value, caller *Frame, deferOf *Frame) (ret Value) {
	name := fn.String()
	if fn.Synthetic == "package initializer" && in.initDepth > 0 && caller != nil {
		// dependency initialisers are run lazily at first touch
		return Tuple(nil)
	}
	if stub, ok := in.Stubs[name]; ok && (caller == nil || caller.fn != stub) {
		fn = stub
		name = fn.String()
	} else if fn.Origin() != nil {
		if stub, ok := in.Stubs[fn.Origin().String()]; ok && (caller == nil || caller.fn != stub) {
			fn = stub
			name = fn.String()
		}
	}
	if h, ok := intrinsics[name]; ok {
		in.curFn = fn
		return h(in, args, caller)
	}
	if fn.Origin() != nil {
		if h, ok := intrinsics[fn.Origin().String()]; ok {
			in.curFn = fn
			return h(in, args, caller)
		}
	}
	if h := in.prefixIntrinsic(fn, name); h != nil {
		in.curFn = fn
		return h(in, args, caller)
	}
	if len(fn.Blocks) == 0 {
		if r, ok := in.tryAsm(fn, args); ok {
			return r
		}
		panic(in.unsupported("call of external function " + name))
	}
	if fn.Pkg != nil {
		in.ensureInit(fn.Pkg)
	}
	if in.initDepth == 0 {
		in.FuncsSeen[name] = true
	}
	in.callDepth++
	if in.callDepth > 400 {
		panic(in.unsupported("call depth > 400"))
	}
	in.stack = append(in.stack, fn.Name())
	savedPos := in.curPos
	fr := &Frame{fn: fn, env: make(map[ssa.Value]Value, 16), caller: caller, deferOf: deferOf}
	for i, p := range fn.Params {
		fr.env[p] = args[i]
	}
	for i, fvv := range fn.FreeVars {
		fr.env[fvv] = env[i]
	}
	defer func() {
		in.callDepth--
		in.stack = in.stack[:len(in.stack)-1]
		in.curPos = savedPos
	}()
	func() {
		defer func() {
			if r := recover(); r != nil {
				gp, ok := r.(*GoPanic)
				if !ok {
					panic(r)
				}
				fr.panicking = gp
			}
		}()
		in.runBlocks(fr, fn.Blocks[0])
	}()
	if fr.panicking != nil {
		in.runDefers(fr)
		if fr.panicking != nil {
			panic(fr.panicking)
		}
		// recovered
		if fn.Recover != nil {
			fr.results = nil
			in.runBlocks(fr, fn.Recover)
		} else {
			fr.results = in.zeroResults(fn)
		}
	}
	return fr.results
}

func (in *Interp) zeroResults(fn *ssa.Function) Value {
	res := fn.Signature.Results()
	switch res.Len() {
	case 0:
		return Tuple(nil)
	case 1:
		return in.zero(res.At(0).Type())
	}
	t := make(Tuple, res.Len())
	for i := range t {
		t[i] = in.zero(res.At(i).Type())
	}
	return t
}

func (in *Interp) runDefers(fr *Frame) {
	for len(fr.defers) > 0 {
		d := fr.defers[len(fr.defers)-1]
		fr.defers = fr.defers[:len(fr.defers)-1]
		func() {
			defer func() {
				if r := recover(); r != nil {
					gp, ok := r.(*GoPanic)
					if !ok {
						panic(r)
					}
					fr.panicking = gp // new panic replaces the old one
				}
			}()
			in.callDeferred(d, fr)
		}()
	}
}

func (in *Interp) callDeferred(d deferred, fr *Frame) {
	switch f := d.fn.(type) {
	case *Closure:
		if f == nil {
			in.goPanicRuntime("nil deferred func")
		}
		in.callFn(f.Fn, d.args, f.Env, fr, fr)
	case *ssa.Builtin:
		in.builtin(f, d.args, fr)
	default:
		panic(in.unsupported("deferred call kind"))
	}
}

func (in *Interp) runBlocks(fr *Frame, b *ssa.BasicBlock) {
	var prev *ssa.BasicBlock
	for b != nil {
		next := in.runBlock(fr, b, prev)
		prev = b
		b = next
	}
}

func (in *Interp) runBlock(fr *Frame, b *ssa.BasicBlock, prev *ssa.BasicBlock) *ssa.BasicBlock {
	// phis first (parallel assignment)
	nphi := 0
	var phiVals []Value
	for _, ins := range b.Instrs {
		phi, ok := ins.(*ssa.Phi)
		if !ok {
			break
		}
		nphi++
		idx := -1
		for i, p := range b.Preds {
			if p == prev {
				idx = i
				break
			}
		}
		if idx < 0 {
			panic("engine: phi without matching predecessor")
		}
		phiVals = append(phiVals, in.get(fr, phi.Edges[idx]))
	}
	for i := 0; i < nphi; i++ {
		fr.env[b.Instrs[i].(*ssa.Phi)] = phiVals[i]
	}
	for _, ins := range b.Instrs[nphi:] {
		in.steps++
		if in.steps > in.maxSteps {
			panic(pathEnd{endSteps, fmt.Sprintf("step limit %d", in.maxSteps)})
		}
		if p := ins.Pos(); p.IsValid() {
			in.curPos = p
		}
		switch x := ins.(type) {
		case *ssa.If:
			c := in.get(fr, x.Cond).(*term.Term)
			if in.decide(c, x, fr) {
				return b.Succs[0]
			}
			return b.Succs[1]
		case *ssa.Jump:
			return b.Succs[0]
		case *ssa.Return:
			switch len(x.Results) {
			case 0:
				fr.results = Tuple(nil)
			case 1:
				fr.results = in.get(fr, x.Results[0])
			default:
				t := make(Tuple, len(x.Results))
				for i, r := range x.Results {
					t[i] = in.get(fr, r)
				}
				fr.results = t
			}
			return nil
		case *ssa.Panic:
			in.goPanic(in.get(fr, x.X))
		case *ssa.RunDefers:
			in.runDefers(fr)
			if fr.panicking != nil {
				panic(fr.panicking)
			}
		default:
			in.instr(fr, ins)
		}
	}
	panic("engine: block without terminator")
}

func (in *Interp) instr(fr *Frame, ins ssa.Instruction) {
	switch x := ins.(type) {
	case *ssa.DebugRef:
	case *ssa.Alloc:
		et := x.Type().(*types.Pointer).Elem()
		fr.env[x] = Pointer{Obj: in.newObject(in.zero(et), et)}
	case *ssa.UnOp:
		fr.env[x] = in.unop(fr, x)
	case *ssa.BinOp:
		fr.env[x] = in.binop(x.Op, in.get(fr, x.X), in.get(fr, x.Y), x.X.Type(), x.Y.Type())
	case *ssa.Store:
		in.store(in.get(fr, x.Addr).(Pointer), in.get(fr, x.Val))
	case *ssa.Call:
		if in.initDepth > 0 && fr.fn.Synthetic == "package initializer" {
			// robust package initialisation: a global initialiser the engine cannot run leaves
			// its value zero (recorded) instead of abandoning the rest of the package's init
			func() {
				defer func() {
					if r := recover(); r != nil {
						if len(in.InitErrors) < 50 {
							in.InitErrors = append(in.InitErrors, fmt.Sprintf("init %s: call %s skipped: %s", fr.fn.Pkg.Pkg.Path(), x.Call.Value.Name(), describeEnd(r)))
						}
						fr.env[x] = in.zeroOrOpaque(x.Type())
					}
				}()
				fr.env[x] = in.callCommon(fr, &x.Call)
			}()
			return
		}
		fr.env[x] = in.callCommon(fr, &x.Call)
	case *ssa.Defer:
		fv, args := in.prepareCall(fr, &x.Call)
		fr.defers = append(fr.defers, deferred{fn: fv, args: args})
	case *ssa.Go:
		fv, _ := in.prepareCall(fr, &x.Call)
		nm := "?"
		if c, ok := fv.(*Closure); ok && c != nil {
			nm = c.Fn.String()
		}
		in.goCalls = append(in.goCalls, nm)
		if h, ok := goHandlers[nm]; ok {
			h(in, fr, x)
		} else if in.ts.on {
			fv2, args := in.prepareCall(fr, &x.Call)
			in.goStmt(fv2, args, nm)
		}
	case *ssa.FieldAddr:
		p := in.get(fr, x.X).(Pointer)
		if p.Obj == nil {
			in.goPanicRuntime("invalid memory address or nil pointer dereference")
		}
		np := make([]PathElem, len(p.Path)+1)
		copy(np, p.Path)
		np[len(p.Path)] = PathElem{I: x.Field}
		fr.env[x] = Pointer{Obj: p.Obj, Path: np}
	case *ssa.Field:
		s := in.get(fr, x.X).(*Struct)
		fr.env[x] = copyVal(s.F[x.Field])
	case *ssa.IndexAddr:
		fr.env[x] = in.indexAddr(fr, x)
	case *ssa.Index:
		fr.env[x] = in.index(fr, x)
	case *ssa.Slice:
		fr.env[x] = in.sliceOp(fr, x)
	case *ssa.MakeSlice:
		n := in.makeLen(in.get(fr, x.Len).(*term.Term), x)
		c := in.makeLen(in.get(fr, x.Cap).(*term.Term), x)
		if n < 0 || c < n {
			in.goPanicRuntime("makeslice: len out of range")
		}
		if c > 1<<24 {
			panic(in.unsupported(fmt.Sprintf("makeslice cap %d too large", c)))
		}
		et := x.Type().Underlying().(*types.Slice).Elem()
		s := in.newSlice(et, nil, c)
		s.Len = n
		fr.env[x] = s
	case *ssa.MakeMap:
		in.nextMap++
		fr.env[x] = &MapV{ID: in.nextMap}
	case *ssa.MakeChan:
		n := in.toInt(in.get(fr, x.Size), "chan size")
		in.nextMap++
		fr.env[x] = &Chan{ID: in.nextMap, Cap: n}
	case *ssa.MakeClosure:
		env := make([]Value, len(x.Bindings))
		for i, b := range x.Bindings {
			env[i] = in.get(fr, b)
		}
		fr.env[x] = &Closure{Fn: x.Fn.(*ssa.Function), Env: env}
	case *ssa.MakeInterface:
		fr.env[x] = Iface{T: x.X.Type(), V: in.get(fr, x.X)}
	case *ssa.ChangeInterface:
		fr.env[x] = in.get(fr, x.X)
	case *ssa.ChangeType:
		fr.env[x] = in.get(fr, x.X)
	case *ssa.Convert:
		fr.env[x] = in.convert(in.get(fr, x.X), x.X.Type(), x.Type())
	case *ssa.MultiConvert:
		fr.env[x] = in.convert(in.get(fr, x.X), x.X.Type(), x.Type())
	case *ssa.SliceToArrayPointer:
		s := in.get(fr, x.X).(Slice)
		n := int(x.Type().(*types.Pointer).Elem().Underlying().(*types.Array).Len())
		if s.Len < n {
			in.goPanicRuntime("cannot convert slice to array pointer: length too short")
		}
		if s.Nil && n == 0 {
			fr.env[x] = Pointer{}
		} else {
			fr.env[x] = in.arrayWindow(s, n)
		}
	case *ssa.TypeAssert:
		fr.env[x] = in.typeAssert(x, in.get(fr, x.X))
	case *ssa.Extract:
		fr.env[x] = in.get(fr, x.Tuple).(Tuple)[x.Index]
	case *ssa.Phi:
		panic("engine: stray phi")
	case *ssa.Lookup:
		fr.env[x] = in.lookup(fr, x)
	case *ssa.MapUpdate:
		m := in.get(fr, x.Map).(*MapV)
		if m.Nil {
			in.goPanicRuntime("assignment to entry in nil map")
		}
		in.mapSet(m, in.get(fr, x.Key), copyVal(in.get(fr, x.Value)))
	case *ssa.Range:
		fr.env[x] = in.rangeInit(in.get(fr, x.X))
	case *ssa.Next:
		fr.env[x] = in.rangeNext(x, in.get(fr, x.Iter).(*RangeIter))
	case *ssa.Send:
		in.chanSend(in.get(fr, x.Chan).(*Chan), in.get(fr, x.X))
	case *ssa.Select:
		fr.env[x] = in.selectOp(fr, x)
	default:
		panic(in.unsupported(fmt.Sprintf("instruction %T", ins)))
	}
}

// arrayWindow returns a pointer usable as *[n]T onto a slice window. The window is the last
// path element (IsWin); IndexAddr / Slice / load / store consume it.
func (in *Interp) arrayWindow(s Slice, n int) Pointer {
	a := in.sliceArray(s)
	if s.Off == 0 && len(a.E) == n {
		return Pointer{Obj: s.Obj, Path: append([]PathElem{}, s.Path...)}
	}
	p := append(append([]PathElem{}, s.Path...), PathElem{I: s.Off, IsWin: true, N: n})
	return Pointer{Obj: s.Obj, Path: p}
}

func (in *Interp) toInt(v Value, what string) int {
	t := v.(*term.Term)
	if x, ok := t.S64(); ok {
		return int(x)
	}
	return int(int64(in.signedConcretize(t, what)))
}

func (in *Interp) signedConcretize(t *term.Term, what string) uint64 {
	v := in.concretize(t, what)
	if t.W < 64 {
		// sign extend
		sh := uint(64 - t.W)
		return uint64(int64(v<<sh) >> sh)
	}
	return v
}

func (in *Interp) prepareCall(fr *Frame, c *ssa.CallCommon) (Value, []Value) {
	var args []Value
	var fv Value
	if c.IsInvoke() {
		recv := in.get(fr, c.Value).(Iface)
		if recv.T == nil {
			in.goPanicRuntime("invalid memory address or nil pointer dereference (nil interface method call " + c.Method.Name() + ")")
		}
		m := in.Prog.LookupMethod(recv.T, c.Method.Pkg(), c.Method.Name())
		if m == nil {
			panic(in.unsupported(fmt.Sprintf("method %s not found on %s", c.Method.Name(), recv.T)))
		}
		fv = &Closure{Fn: m}
		args = append(args, recv.V)
	} else {
		fv = in.get(fr, c.Value)
	}
	for _, a := range c.Args {
		args = append(args, in.get(fr, a))
	}
	return fv, args
}

func (in *Interp) callCommon(fr *Frame, c *ssa.CallCommon) Value {
	fv, args := in.prepareCall(fr, c)
	switch f := fv.(type) {
	case *Closure:
		if f == nil {
			in.goPanicRuntime("invalid memory address or nil pointer dereference (nil func)")
		}
		return in.callFn(f.Fn, args, f.Env, fr, nil)
	case *ssa.Builtin:
		return in.builtin(f, args, fr)
	}
	panic(in.unsupported(fmt.Sprintf("call of %T", fv)))
}

func (in *Interp) unop(fr *Frame, x *ssa.UnOp) Value {
	v := in.get(fr, x.X)
	switch x.Op {
	case token.MUL:
		return in.load(v.(Pointer))
	case token.NOT:
		return term.BNot(v.(*term.Term))
	case token.SUB:
		if t, ok := v.(*term.Term); ok {
			return term.Neg(t)
		}
		return Opaque{"float-neg"}
	case token.XOR:
		return term.Not(v.(*term.Term))
	case token.ARROW:
		val, ok := in.chanRecv(v.(*Chan))
		if x.CommaOk {
			return Tuple{val2(val, in, x), term.Bool(ok)}
		}
		return val2(val, in, x)
	}
	panic(in.unsupported("unop " + x.Op.String()))
}

func val2(v Value, in *Interp, x *ssa.UnOp) Value {
	if v != nil {
		return v
	}
	t := x.X.Type().Underlying().(*types.Chan).Elem()
	return in.zero(t)
}

func (in *Interp) indexAddr(fr *Frame, x *ssa.IndexAddr) Value {
	base := in.get(fr, x.X)
	idx := in.get(fr, x.Index).(*term.Term)
	_, sgn, _ := intWidth(x.Index.Type())
	switch b := base.(type) {
	case Slice:
		i, sym := in.boundsCheck(idx, sgn, b.Len, fr, x)
		np := make([]PathElem, len(b.Path)+1)
		copy(np, b.Path)
		if sym != nil {
			if b.Off != 0 {
				sym = term.Add(fit64(sym), term.Const(64, uint64(b.Off)))
			}
			np[len(b.Path)] = PathElem{Sym: fit64(sym)}
		} else {
			np[len(b.Path)] = PathElem{I: b.Off + i}
		}
		return Pointer{Obj: b.Obj, Path: np}
	case Pointer:
		if b.Obj == nil {
			in.goPanicRuntime("invalid memory address or nil pointer dereference")
		}
		n := int(x.X.Type().Underlying().(*types.Pointer).Elem().Underlying().(*types.Array).Len())
		i, sym := in.boundsCheck(idx, sgn, n, fr, x)
		base := 0
		if k := len(b.Path); k > 0 && b.Path[k-1].IsWin {
			base = b.Path[k-1].I
			b.Path = b.Path[:k-1]
		}
		np := make([]PathElem, len(b.Path)+1)
		copy(np, b.Path)
		if sym != nil {
			s := fit64(sym)
			if base != 0 {
				s = term.Add(s, term.Const(64, uint64(base)))
			}
			np[len(b.Path)] = PathElem{Sym: s}
		} else {
			np[len(b.Path)] = PathElem{I: base + i}
		}
		return Pointer{Obj: b.Obj, Path: np}
	}
	panic(in.unsupported(fmt.Sprintf("IndexAddr on %T", base)))
}

func fit64(t *term.Term) *term.Term {
	if t.W == 64 {
		return t
	}
	return term.Zext(t, 64)
}

// boundsCheck returns a concrete index, or the symbolic index term (already known in range).
func (in *Interp) boundsCheck(idx *term.Term, signed bool, n int, fr *Frame, site ssa.Instruction) (int, *term.Term) {
	if v, ok := idx.U64(); ok {
		var iv int64
		if signed {
			iv, _ = idx.S64()
		} else {
			iv = int64(v)
			if v > 1<<62 {
				iv = -1
			}
		}
		if iv < 0 || iv >= int64(n) {
			in.goPanicRuntime(fmt.Sprintf("index out of range [%d] with length %d", iv, n))
		}
		return int(iv), nil
	}
	// symbolic: in range?
	var inRange *term.Term
	if idx.W < 64 {
		if signed {
			idx = term.Sext(idx, 64)
		} else {
			idx = term.Zext(idx, 64)
		}
	}
	inRange = term.Ult(idx, term.Const(64, uint64(n)))
	if !in.decide(inRange, site, nil) {
		in.goPanicRuntime(fmt.Sprintf("index out of range [symbolic] with length %d", n))
	}
	if n == 1 {
		return 0, nil
	}
	return 0, idx
}

func (in *Interp) index(fr *Frame, x *ssa.Index) Value {
	base := in.get(fr, x.X)
	idx := in.get(fr, x.Index).(*term.Term)
	_, sgn, _ := intWidth(x.Index.Type())
	switch b := base.(type) {
	case *Array:
		i, sym := in.boundsCheck(idx, sgn, len(b.E), fr, x)
		if sym != nil {
			return in.symLoad(b, sym)
		}
		return copyVal(b.E[i])
	case Str:
		i, sym := in.boundsCheck(idx, sgn, b.Len(), fr, x)
		if sym != nil {
			bs := b.Bytes()
			arr := &Array{E: make([]Value, len(bs))}
			for k, t := range bs {
				arr.E[k] = t
			}
			return in.symLoad(arr, sym)
		}
		return b.Bytes()[i]
	}
	panic(in.unsupported(fmt.Sprintf("Index on %T", base)))
}

func (in *Interp) sliceOp(fr *Frame, x *ssa.Slice) Value {
	base := in.get(fr, x.X)
	var lo, hi, max int
	hasLo, hasHi, hasMax := x.Low != nil, x.High != nil, x.Max != nil
	// symbolic bounds: decide validity with one query (panic branch), then concretise
	{
		capN, lenN := -1, -1
		switch b := base.(type) {
		case Str:
			capN, lenN = b.Len(), b.Len()
		case Slice:
			capN, lenN = b.Cap, b.Len
		case Pointer:
			if pt, ok := x.X.Type().Underlying().(*types.Pointer); ok {
				if at, ok := pt.Elem().Underlying().(*types.Array); ok {
					capN, lenN = int(at.Len()), int(at.Len())
				}
			}
		}
		sym := false
		get64 := func(v ssa.Value, def int) *term.Term {
			if v == nil {
				return term.Const(64, uint64(def))
			}
			t := in.get(fr, v).(*term.Term)
			if t.K != term.KConst {
				sym = true
			}
			if t.W < 64 {
				if _, sg, _ := intWidth(v.Type()); sg {
					return term.Sext(t, 64)
				}
				return term.Zext(t, 64)
			}
			return t
		}
		if capN >= 0 {
			tlo := get64(x.Low, 0)
			thi := get64(x.High, lenN)
			tmax := get64(x.Max, capN)
			if sym {
				valid := term.BAnd(term.Sle(term.Const(64, 0), tlo), term.Sle(tlo, thi), term.Sle(thi, tmax), term.Sle(tmax, term.Const(64, uint64(capN))))
				if !in.decide(valid, nil, nil) {
					in.goPanicRuntime("slice bounds out of range [symbolic]")
				}
			}
		}
	}
	if hasLo {
		lo = in.toInt(in.get(fr, x.Low), "slice low")
	}
	if hasHi {
		hi = in.toInt(in.get(fr, x.High), "slice high")
	}
	if hasMax {
		max = in.toInt(in.get(fr, x.Max), "slice max")
	}
	switch b := base.(type) {
	case Str:
		n := b.Len()
		if !hasHi {
			hi = n
		}
		if lo < 0 || hi < lo || hi > n {
			in.goPanicRuntime(fmt.Sprintf("slice bounds out of range [%d:%d] with length %d", lo, hi, n))
		}
		if b.B == nil {
			return Str{S: b.S[lo:hi]}
		}
		return mkStr(b.B[lo:hi])
	case Slice:
		if !hasHi {
			hi = b.Len
		}
		if !hasMax {
			max = b.Cap
		}
		if lo < 0 || hi < lo || max < hi || max > b.Cap {
			in.goPanicRuntime(fmt.Sprintf("slice bounds out of range [%d:%d:%d] with capacity %d", lo, hi, max, b.Cap))
		}
		if b.Nil {
			return b
		}
		return Slice{Obj: b.Obj, Path: b.Path, Off: b.Off + lo, Len: hi - lo, Cap: max - lo}
	case Pointer:
		if b.Obj == nil {
			in.goPanicRuntime("invalid memory address or nil pointer dereference")
		}
		n := int(x.X.Type().Underlying().(*types.Pointer).Elem().Underlying().(*types.Array).Len())
		if !hasHi {
			hi = n
		}
		if !hasMax {
			max = n
		}
		if lo < 0 || hi < lo || max < hi || max > n {
			in.goPanicRuntime(fmt.Sprintf("slice bounds out of range [%d:%d:%d] with capacity %d", lo, hi, max, n))
		}
		base0 := 0
		if k := len(b.Path); k > 0 && b.Path[k-1].IsWin {
			base0 = b.Path[k-1].I
			b.Path = b.Path[:k-1]
		}
		return Slice{Obj: b.Obj, Path: b.Path, Off: base0 + lo, Len: hi - lo, Cap: max - lo}
	}
	panic(in.unsupported(fmt.Sprintf("Slice on %T", base)))
}

func (in *Interp) typeAssert(x *ssa.TypeAssert, v Value) Value {
	iv := v.(Iface)
	ok := false
	var res Value
	if _, isIface := x.AssertedType.Underlying().(*types.Interface); isIface {
		if iv.T != nil && types.Implements(iv.T, x.AssertedType.Underlying().(*types.Interface)) {
			ok = true
			res = iv
		} else {
			res = Iface{}
		}
	} else {
		if iv.T != nil && types.Identical(iv.T, x.AssertedType) {
			ok = true
			res = iv.V
		} else {
			res = in.zero(x.AssertedType)
		}
	}
	if x.CommaOk {
		return Tuple{res, term.Bool(ok)}
	}
	if !ok {
		have := "nil"
		if iv.T != nil {
			have = iv.T.String()
		}
		in.goPanicRuntime("interface conversion: interface is " + have + ", not " + x.AssertedType.String())
	}
	return res
}

// ---------- operators ----------

func (in *Interp) binop(op token.Token, xv, yv Value, xt, yt types.Type) Value {
	switch x := xv.(type) {
	case *term.Term:
		y, ok := yv.(*term.Term)
		if !ok {
			panic(in.unsupported(fmt.Sprintf("binop %s term vs %T", op, yv)))
		}
		if x.W == 0 {
			switch op {
			case token.EQL:
				return term.Eq(x, y)
			case token.NEQ:
				return term.BNot(term.Eq(x, y))
			case token.AND, token.LAND:
				return term.BAnd(x, y)
			case token.OR, token.LOR:
				return term.BOr(x, y)
			}
			panic(in.unsupported("bool binop " + op.String()))
		}
		_, sgn, _ := intWidth(xt)
		switch op {
		case token.ADD:
			return term.Add(x, y)
		case token.SUB:
			return term.Sub(x, y)
		case token.MUL:
			return term.Mul(x, y)
		case token.QUO, token.REM:
			if y.K != term.KConst {
				if in.decide(term.Eq(y, term.Const(y.W, 0)), nil, nil) {
					in.goPanicRuntime("integer divide by zero")
				}
			} else if v, _ := y.U64(); v == 0 {
				in.goPanicRuntime("integer divide by zero")
			}
			if op == token.QUO {
				if sgn {
					return term.Sdiv(x, y)
				}
				return term.Udiv(x, y)
			}
			if sgn {
				return term.Srem(x, y)
			}
			return term.Urem(x, y)
		case token.AND:
			return term.And(x, y)
		case token.OR:
			return term.Or(x, y)
		case token.XOR:
			return term.Xor(x, y)
		case token.AND_NOT:
			return term.And(x, term.Not(y))
		case token.SHL, token.SHR:
			_, ysgn, _ := intWidth(yt)
			if ysgn {
				if y.K == term.KConst {
					if sv, _ := y.S64(); sv < 0 {
						in.goPanicRuntime("negative shift amount")
					}
				} else if in.decide(term.Slt(y, term.Const(y.W, 0)), nil, nil) {
					in.goPanicRuntime("negative shift amount")
				}
			}
			if op == token.SHL {
				return term.Shl(x, y)
			}
			if sgn {
				return term.Ashr(x, y)
			}
			return term.Lshr(x, y)
		case token.EQL:
			return term.Eq(x, y)
		case token.NEQ:
			return term.BNot(term.Eq(x, y))
		case token.LSS:
			if sgn {
				return term.Slt(x, y)
			}
			return term.Ult(x, y)
		case token.LEQ:
			if sgn {
				return term.Sle(x, y)
			}
			return term.Ule(x, y)
		case token.GTR:
			if sgn {
				return term.Slt(y, x)
			}
			return term.Ult(y, x)
		case token.GEQ:
			if sgn {
				return term.Sle(y, x)
			}
			return term.Ule(y, x)
		}
	case Str:
		y := yv.(Str)
		switch op {
		case token.ADD:
			if x.B == nil && y.B == nil {
				return Str{S: x.S + y.S}
			}
			return mkStr(append(append([]*term.Term{}, x.Bytes()...), y.Bytes()...))
		case token.EQL:
			return strEq(x, y)
		case token.NEQ:
			return term.BNot(strEq(x, y))
		case token.LSS, token.LEQ, token.GTR, token.GEQ:
			if x.B == nil && y.B == nil {
				switch op {
				case token.LSS:
					return term.Bool(x.S < y.S)
				case token.LEQ:
					return term.Bool(x.S <= y.S)
				case token.GTR:
					return term.Bool(x.S > y.S)
				default:
					return term.Bool(x.S >= y.S)
				}
			}
			lt := strLess(x, y)
			switch op {
			case token.LSS:
				return lt
			case token.GEQ:
				return term.BNot(lt)
			case token.GTR:
				return strLess(y, x)
			default:
				return term.BNot(strLess(y, x))
			}
		}
	case Opaque:
		return Opaque{"float-op"}
	}
	if op == token.EQL || op == token.NEQ {
		eq := in.valueEq(xv, yv)
		if op == token.NEQ {
			return term.BNot(eq)
		}
		return eq
	}
	panic(in.unsupported(fmt.Sprintf("binop %s on %T", op, xv)))
}

func strEq(x, y Str) *term.Term {
	if x.Len() != y.Len() {
		return term.False
	}
	if x.B == nil && y.B == nil {
		return term.Bool(x.S == y.S)
	}
	xb, yb := x.Bytes(), y.Bytes()
	cs := make([]*term.Term, len(xb))
	for i := range xb {
		cs[i] = term.Eq(xb[i], yb[i])
	}
	return term.BAnd(cs...)
}

func strLess(x, y Str) *term.Term {
	xb, yb := x.Bytes(), y.Bytes()
	n := len(xb)
	if len(yb) < n {
		n = len(yb)
	}
	// lexicographic: build from the end
	res := term.Bool(len(xb) < len(yb))
	for i := n - 1; i >= 0; i-- {
		res = term.Ite(term.Eq(xb[i], yb[i]), res, term.Ult(xb[i], yb[i]))
	}
	return res
}

// valueEq implements == for non-scalar comparable values.
func (in *Interp) valueEq(a, b Value) *term.Term {
	switch x := a.(type) {
	case *term.Term:
		if y, ok := b.(*term.Term); ok {
			return term.Eq(x, y)
		}
		return term.False
	case Str:
		if y, ok := b.(Str); ok {
			return strEq(x, y)
		}
		return term.False
	case Pointer:
		y, ok := b.(Pointer)
		if !ok {
			return term.False
		}
		if x.Obj == nil || y.Obj == nil {
			return term.Bool(x.Obj == y.Obj)
		}
		return term.Bool(x.Obj == y.Obj && pathEq(x.Path, y.Path))
	case Iface:
		y, ok := b.(Iface)
		if !ok {
			return term.False
		}
		if x.T == nil || y.T == nil {
			return term.Bool(x.T == nil && y.T == nil)
		}
		if !types.Identical(x.T, y.T) {
			return term.False
		}
		return in.valueEq(x.V, y.V)
	case *Struct:
		y, ok := b.(*Struct)
		if !ok {
			return term.False
		}
		cs := make([]*term.Term, len(x.F))
		for i := range x.F {
			cs[i] = in.valueEq(x.F[i], y.F[i])
		}
		return term.BAnd(cs...)
	case *Array:
		y, ok := b.(*Array)
		if !ok {
			return term.False
		}
		cs := make([]*term.Term, len(x.E))
		for i := range x.E {
			cs[i] = in.valueEq(x.E[i], y.E[i])
		}
		return term.BAnd(cs...)
	case *Closure:
		y, ok := b.(*Closure)
		if ok && (x == nil || y == nil) {
			return term.Bool(x == nil && y == nil)
		}
		return term.Bool(ok && x == y)
	case Slice:
		y, ok := b.(Slice)
		if ok && (x.Nil || y.Nil) {
			return term.Bool(x.Nil && y.Nil)
		}
	case *MapV:
		y, ok := b.(*MapV)
		if ok && (x.Nil || y.Nil) {
			return term.Bool(x.Nil && y.Nil)
		}
		return term.Bool(ok && x == y)
	case *Chan:
		y, ok := b.(*Chan)
		if ok && (x.Nil || y.Nil) {
			return term.Bool(x.Nil && y.Nil)
		}
		return term.Bool(ok && x == y)
	case RType:
		y, ok := b.(RType)
		return term.Bool(ok && types.Identical(x.T, y.T))
	}
	panic(in.unsupported(fmt.Sprintf("== on %T", a)))
}

func (in *Interp) convert(v Value, from, to types.Type) Value {
	fw, fs, fok := intWidth(from)
	tw, _, tok := intWidth(to)
	if fok && tok {
		t := v.(*term.Term)
		if tw == fw {
			return t
		}
		if tw < fw {
			return term.Extract(t, tw-1, 0)
		}
		if fs {
			return term.Sext(t, tw)
		}
		return term.Zext(t, tw)
	}
	fu, tu := from.Underlying(), to.Underlying()
	// string <-> []byte
	if fb, ok := fu.(*types.Basic); ok && fb.Info()&types.IsString != 0 {
		if ts, ok := tu.(*types.Slice); ok {
			if w, _, ok := intWidth(ts.Elem()); ok && w == 8 {
				return in.byteSlice(v.(Str).Bytes())
			}
			panic(in.unsupported("string -> []rune"))
		}
		if tb, ok := tu.(*types.Basic); ok && tb.Info()&types.IsString != 0 {
			return v
		}
	}
	if fsl, ok := fu.(*types.Slice); ok {
		if tb, ok := tu.(*types.Basic); ok && tb.Info()&types.IsString != 0 {
			if w, _, ok := intWidth(fsl.Elem()); ok && w == 8 {
				return mkStr(in.sliceTerms(v.(Slice)))
			}
			if w, _, ok := intWidth(fsl.Elem()); ok && w == 32 {
				return in.runesToStr(v.(Slice))
			}
			panic(in.unsupported("[]rune -> string"))
		}
		return v
	}
	if fok {
		if tb, ok := tu.(*types.Basic); ok && tb.Info()&types.IsString != 0 {
			t := v.(*term.Term)
			if c, ok := t.S64(); ok {
				return Str{S: string(rune(c))}
			}
			panic(in.unsupported("string(symbolic rune)"))
		}
		if isFloat(to) {
			return Opaque{"int->float"}
		}
		if tb, ok := tu.(*types.Basic); ok && tb.Kind() == types.UnsafePointer {
			// uintptr -> unsafe.Pointer
			panic(in.unsupported("uintptr -> unsafe.Pointer"))
		}
	}
	if isFloat(from) {
		if tok {
			panic(in.unsupported("float -> int conversion"))
		}
		return Opaque{"float-conv"}
	}
	// pointer <-> unsafe.Pointer
	if _, ok := v.(Pointer); ok {
		if tok {
			// unsafe.Pointer -> uintptr
			return in.pointerAddr(v.(Pointer))
		}
		return v
	}
	return v
}

func (in *Interp) pointerAddr(p Pointer) Value {
	if p.Obj == nil {
		return term.Const(64, 0)
	}
	off := int64(0)
	t := p.Obj.T
	for _, pe := range p.Path {
		if t == nil {
			break
		}
		switch u := t.Underlying().(type) {
		case *types.Array:
			off += int64(pe.I) * in.Sizes.Sizeof(u.Elem())
			t = u.Elem()
		case *types.Struct:
			fields := make([]*types.Var, u.NumFields())
			for i := range fields {
				fields[i] = u.Field(i)
			}
			offs := in.Sizes.Offsetsof(fields)
			off += offs[pe.I]
			t = u.Field(pe.I).Type()
		}
	}
	return term.Const(64, uint64(p.Obj.ID)<<40+uint64(off)+0x1000)
}
