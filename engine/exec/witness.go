package exec

import (
	"math/big"

	"verif/engine/term"
)

// randomWitness tries to refute assertion c by evaluation before the solver is asked: it
// keeps the current model for every symbol the path condition mentions and draws
// pseudo-random values for all other symbols (up to `tries` draws). A draw counts only if
// every path-condition term evaluates to true and c evaluates to false under it, so the
// result is a genuine model of pc AND NOT c. This matters for refuted equalities between
// 20-round ARX terms (sat-hard for the bit-blasting solvers, trivial by evaluation) when the
// all-zero model happens to satisfy them. Terms containing uninterpreted functions do not
// evaluate; then nil is returned and the solver decides.
func (in *Interp) randomWitness(c *term.Term, tries int) map[string]*big.Int {
	var pcVars term.Bits
	for _, p := range in.pc {
		pcVars = pcVars.Or(term.VarSet(p))
	}
	seed := uint64(0x9e3779b97f4a7c15) ^ uint64(len(in.syms))<<32 ^ uint64(in.pathID)
	next := func() uint64 {
		seed += 0x9e3779b97f4a7c15
		z := seed
		z = (z ^ (z >> 30)) * 0xbf58476d1ce4e5b9
		z = (z ^ (z >> 27)) * 0x94d049bb133111eb
		return z ^ (z >> 31)
	}
	for t := 0; t < tries; t++ {
		m := make(map[string]*big.Int, len(in.syms))
		for k, v := range in.model {
			m[k] = v
		}
		free := 0
		for _, s := range in.syms {
			if s.K != term.KVar || term.VarSet(s).Intersects(pcVars) {
				continue
			}
			v := new(big.Int).SetUint64(next())
			w := s.W
			if w == 0 {
				w = 1
			}
			if w < 64 {
				v.And(v, new(big.Int).SetUint64(uint64(1)<<uint(w)-1))
			}
			m[s.Name] = v
			free++
		}
		if free == 0 {
			return nil
		}
		ok := true
		for _, p := range in.pc {
			if v, evok := term.Eval(p, m); !evok || v.Sign() == 0 {
				ok = false
				break
			}
		}
		if !ok {
			continue
		}
		if v, evok := term.Eval(c, m); evok && v.Sign() == 0 {
			return m
		} else if !evok {
			return nil
		}
	}
	return nil
}
