package exec

// Clock intrinsics. The wall clock is part of the environment: code under test that reads it
// must be given the instant by the harness (Manager.nowFunc, CertChecker.Clock, a //verif:stub of
// time.Now). The defaults below only make package initialisers and incidental calls
// deterministic: a fixed instant without a monotonic reading (so time.Time values keep the
// simple wall/ext layout).

import "verif/engine/term"

func init() {
	RegisterIntrinsic("time.runtimeNano", func(in *Interp, a []Value, _ *Frame) Value {
		return term.Const(64, 1_000_000_000)
	})
	RegisterIntrinsic("time.runtimeNow", func(in *Interp, a []Value, _ *Frame) Value {
		// sec, nsec, mono: 2023-11-14T22:13:20Z, no monotonic reading
		return Tuple{term.Const(64, 1_700_000_000), term.Const(32, 0), term.Const(64, 0)}
	})
	RegisterIntrinsic("time.now", func(in *Interp, a []Value, _ *Frame) Value {
		return Tuple{term.Const(64, 1_700_000_000), term.Const(32, 0), term.Const(64, 0)}
	})
	RegisterIntrinsic("time.runtimeIsBubbled", func(in *Interp, a []Value, _ *Frame) Value { return term.False })
	RegisterIntrinsic("time.Sleep", func(in *Interp, a []Value, _ *Frame) Value { return Tuple(nil) })
	// timers never fire in the engine: time.After yields a channel that is never ready
	RegisterIntrinsic("time.After", func(in *Interp, a []Value, _ *Frame) Value {
		in.nextMap++
		return &Chan{ID: in.nextMap, Cap: 1}
	})
}
