package exec

// Opt-in goroutine support (verifrt.Goroutines(true)).
//
// Every `go f()` becomes an engine thread: a host goroutine running the interpreter for f, of
// which exactly one runs at any time (control is handed over explicitly, so the interpreter
// state needs no locking). Threads run until they block (channel operation that is not ready,
// Lock of a held mutex, Cond.Wait, WaitGroup.Wait) or finish; then another ready thread is
// resumed. This explores one schedule per path: "run until blocked, lowest thread id first".
// verifrt.SchedBound(k) additionally makes every synchronisation point (Lock, Unlock, channel
// operation, go statement, Cond.Wait) a scheduling point at which the engine forks over
// "continue" and "switch to ready thread i", at most k voluntary switches per path. For
// data-race-free code (shared state only touched under locks / through channels) interleaving
// at synchronisation points is complete, so k bounds the number of preemptions only.
// If every thread is blocked the path ends as BLOCKED (deadlock), listing the blocked operations.

import (
	"fmt"
	"go/token"
	"sort"
	"strings"
	"sync"

	"golang.org/x/tools/go/ssa"
	"verif/engine/term"
)

type gthread struct {
	id        int
	resume    chan bool   // true: run; false: die
	ready     func() bool // nil: runnable
	what      string
	done      bool
	started   bool
	exited    chan struct{} // closed when the host goroutine has returned
	name      string
	stack     []string
	callDepth int
	curPos    token.Pos
}

type threadKill struct{}

type threadState struct {
	on       bool
	threads  []*gthread
	cur      *gthread
	fatal    interface{} // path end / Go panic raised in a non-main thread, rethrown by main
	bound    int
	switches int
	wg       sync.WaitGroup
	nsched   int
	trace    []string
}

func (in *Interp) mainThread() *gthread {
	if len(in.ts.threads) == 0 {
		m := &gthread{id: 0, resume: make(chan bool, 1), started: true, name: "main"}
		in.ts.threads = append(in.ts.threads, m)
		in.ts.cur = m
	}
	return in.ts.threads[0]
}

// spawn creates a thread for `go fv(args...)`.
func (in *Interp) spawn(fv Value, args []Value, name string) {
	in.spawnFunc(func() { in.call(fv, args, nil) }, name)
}

func (in *Interp) spawnFunc(body func(), name string) {
	in.mainThread()
	th := &gthread{id: len(in.ts.threads), resume: make(chan bool, 1), name: name}
	in.ts.threads = append(in.ts.threads, th)
	th.exited = make(chan struct{})
	go func() {
		defer close(th.exited)
		if run := <-th.resume; !run {
			th.done = true
			return
		}
		th.started = true
		defer func() {
			r := recover()
			th.done = true
			if r != nil {
				if _, kill := r.(threadKill); kill {
					return
				}
				// a path end or an uncaught Go panic in a goroutine ends the whole path
				in.ts.fatal = r
			}
			in.threadExit(th)
		}()
		body()
	}()
}

func (in *Interp) saveCtx(th *gthread) {
	th.stack, th.callDepth, th.curPos = in.stack, in.callDepth, in.curPos
}

func (in *Interp) loadCtx(th *gthread) {
	in.stack, in.callDepth, in.curPos = th.stack, th.callDepth, th.curPos
}

// handoff transfers control from the running thread to next and parks the running thread.
func (in *Interp) handoff(from, next *gthread) {
	in.saveCtx(from)
	in.ts.cur = next
	in.loadCtx(next)
	if len(in.ts.trace) < 200 {
		in.ts.trace = append(in.ts.trace, fmt.Sprintf("%d>%d", from.id, next.id))
	}
	next.resume <- true
	run := <-from.resume
	if !run {
		// killed at the end of the path: unwind this thread's interpreter frames on its own context
		in.loadCtx(from)
		panic(threadKill{})
	}
	// in.cur / context were set by whoever resumed us
	if from.id == 0 && in.ts.fatal != nil {
		r := in.ts.fatal
		in.ts.fatal = nil
		panic(r)
	}
}

// threadExit is called on the host goroutine of a finished thread: pass control on.
func (in *Interp) threadExit(th *gthread) {
	main := in.ts.threads[0]
	var next *gthread
	if in.ts.fatal != nil {
		next = main
	} else {
		next = in.pickNext(th)
		if next == nil {
			in.ts.fatal = pathEnd{endBlocked, "BLOCKED: deadlock: " + in.blockedSummary()}
			next = main
		}
	}
	in.ts.cur = next
	in.loadCtx(next)
	next.resume <- true
}

func (in *Interp) readyThreads(except *gthread) []*gthread {
	var out []*gthread
	for _, t := range in.ts.threads {
		if t == except || t.done {
			continue
		}
		if t.ready == nil || t.ready() {
			out = append(out, t)
		}
	}
	return out
}

func (in *Interp) pickNext(except *gthread) *gthread {
	r := in.readyThreads(except)
	if len(r) == 0 {
		return nil
	}
	return r[0]
}

func (in *Interp) blockedSummary() string {
	var parts []string
	for _, t := range in.ts.threads {
		if !t.done && t.ready != nil {
			parts = append(parts, fmt.Sprintf("[%s: %s]", t.name, t.what))
		}
	}
	sort.Strings(parts)
	return strings.Join(parts, " ")
}

// block parks the running thread until ready() holds. Without other threads that could make
// progress the path ends as BLOCKED.
func (in *Interp) block(ready func() bool, what string) {
	for !ready() {
		if !in.ts.on || len(in.ts.threads) == 0 {
			panic(pathEnd{endBlocked, "BLOCKED: " + what + lockNote(in)})
		}
		th := in.ts.cur
		th.ready, th.what = ready, what+lockNote(in)
		next := in.pickNext(th)
		if next == nil {
			msg := "BLOCKED: deadlock: " + in.blockedSummary()
			th.ready = nil
			panic(pathEnd{endBlocked, msg})
		}
		in.handoff(th, next)
		th.ready = nil
	}
}

// schedPoint is a synchronisation point: with a positive SchedBound the engine forks over
// continuing and switching to each other ready thread.
func (in *Interp) schedPoint(what string) {
	if !in.ts.on || len(in.ts.threads) < 2 || in.ts.switches >= in.ts.bound {
		return
	}
	th := in.ts.cur
	others := in.readyThreads(th)
	if len(others) == 0 {
		return
	}
	in.ts.nsched++
	v := term.Var(fmt.Sprintf("sched%d_8", in.ts.nsched), 8)
	in.addPC(term.Ule(v, term.Const(8, uint64(len(others)))))
	c := in.concretize(v, "schedule choice at "+what)
	if c == 0 {
		return
	}
	in.ts.switches++
	in.handoff(th, others[c-1])
}

// killThreads ends all parked threads of a finished path.
func (in *Interp) killThreads() {
	for _, t := range in.ts.threads[min(1, len(in.ts.threads)):] {
		if !t.done {
			// resume channels have capacity 1 and a thread consumes every message before the
			// next one is sent, so this never blocks even if the thread has not parked yet.
			// Threads are unwound one at a time: they share the interpreter state.
			t.resume <- false
		}
		<-t.exited
	}
}

// ---------- lock / condition / waitgroup state ----------

type lockState struct {
	writer  int // thread id + 1 of the exclusive holder, 0 if none
	readers int
}

func (in *Interp) lockKey(p Value) string {
	ptr := p.(Pointer)
	if ptr.Obj == nil {
		in.goPanicRuntime("invalid memory address or nil pointer dereference (nil mutex)")
	}
	return fmt.Sprintf("%d%v", ptr.Obj.ID, ptr.Path)
}

func (in *Interp) curID() int {
	if in.ts.cur != nil {
		return in.ts.cur.id
	}
	return 0
}

// mutexOp: kind 'L' Lock, 'U' Unlock, 'R' RLock, 'r' RUnlock, 'T' TryLock.
func (in *Interp) mutexOp(p Value, kind byte) Value {
	key := in.lockKey(p)
	st := in.mlocks[key]
	if st == nil {
		st = &lockState{}
		in.mlocks[key] = st
	}
	switch kind {
	case 'L':
		in.schedPoint("Lock")
		in.block(func() bool { return st.writer == 0 && st.readers == 0 }, "Lock of a held mutex at "+in.Prog.Fset.Position(in.curPos).String())
		st.writer = in.curID() + 1
		in.locks[key]++
	case 'T':
		if st.writer != 0 || st.readers != 0 {
			return term.False
		}
		st.writer = in.curID() + 1
		in.locks[key]++
		return term.True
	case 'R':
		in.schedPoint("RLock")
		in.block(func() bool { return st.writer == 0 }, "RLock of a write-locked mutex at "+in.Prog.Fset.Position(in.curPos).String())
		st.readers++
		in.locks[key]++
	case 'U':
		if st.writer == 0 {
			in.goPanic(Iface{T: stringType, V: Str{S: "sync: unlock of unlocked mutex"}})
		}
		st.writer = 0
		in.locks[key]--
		in.schedPoint("Unlock")
	case 'r':
		if st.readers == 0 {
			in.goPanic(Iface{T: stringType, V: Str{S: "sync: RUnlock of unlocked RWMutex"}})
		}
		st.readers--
		in.locks[key]--
		in.schedPoint("RUnlock")
	}
	return Tuple(nil)
}

func (in *Interp) condKey(p Value) string { return "cond:" + in.lockKey(p) }

func (in *Interp) condWait(a []Value) Value {
	p := a[0].(Pointer)
	key := in.condKey(p)
	get, _ := in.slot(p.Obj, p.Path)
	st, ok := get().(*Struct)
	if !ok || len(st.F) == 0 {
		panic(in.unsupported("sync.Cond value not created by sync.NewCond"))
	}
	// the Locker: created by the sync.NewCond intrinsic as field 0; a real sync.Cond has L as field 1
	var l Iface
	for _, f := range st.F {
		if iv, ok := f.(Iface); ok && iv.T != nil {
			l = iv
			break
		}
	}
	if l.T == nil {
		panic(in.unsupported("sync.Cond without Locker"))
	}
	// FIFO notify list as in the runtime: a waiter takes a ticket; Signal releases the oldest
	// waiting ticket, Broadcast all of them
	in.condGen[key]++
	ticket := in.condGen[key]
	in.condWaiters[key] = append(in.condWaiters[key], ticket)
	in.mutexOp(l.V, 'U')
	in.block(func() bool { return in.condReleased[key][ticket] }, "Cond.Wait at "+in.Prog.Fset.Position(in.curPos).String())
	in.mutexOp(l.V, 'L')
	return Tuple(nil)
}

func (in *Interp) condSignal(a []Value, what string) Value {
	key := in.condKey(a[0])
	in.condEvents = append(in.condEvents, what)
	w := in.condWaiters[key]
	if len(w) == 0 {
		return Tuple(nil)
	}
	if in.condReleased[key] == nil {
		in.condReleased[key] = map[int]bool{}
	}
	n := len(w)
	if what == "signal" {
		n = 1
	}
	for _, t := range w[:n] {
		in.condReleased[key][t] = true
	}
	in.condWaiters[key] = append([]int{}, w[n:]...)
	return Tuple(nil)
}

func (in *Interp) wgOp(a []Value, op string) Value {
	key := "wg:" + in.lockKey(a[0])
	switch op {
	case "Add":
		n, ok := a[1].(*term.Term).S64()
		if !ok {
			panic(in.unsupported("WaitGroup.Add of a symbolic delta"))
		}
		in.wgCount[key] += int(n)
		if in.wgCount[key] < 0 {
			in.goPanic(Iface{T: stringType, V: Str{S: "sync: negative WaitGroup counter"}})
		}
	case "Done":
		in.wgCount[key]--
		if in.wgCount[key] < 0 {
			in.goPanic(Iface{T: stringType, V: Str{S: "sync: negative WaitGroup counter"}})
		}
	case "Wait":
		if !in.ts.on {
			return Tuple(nil) // goroutines are not run: nothing to wait for
		}
		in.block(func() bool { return in.wgCount[key] <= 0 }, "WaitGroup.Wait at "+in.Prog.Fset.Position(in.curPos).String())
	}
	return Tuple(nil)
}

// goStmt handles *ssa.Go when goroutines are enabled.
func (in *Interp) goStmt(fv Value, args []Value, name string) {
	switch f := fv.(type) {
	case *Closure:
		if f == nil {
			in.goPanicRuntime("go of nil func value")
		}
	case *ssa.Builtin:
	default:
		panic(in.unsupported(fmt.Sprintf("go statement on %T", fv)))
	}
	in.spawn(fv, args, name)
	in.schedPoint("go " + name)
}

// installThreadIntrinsics replaces the single-thread models of the sync primitives (called
// from NewShared, i.e. after every init function has run).
func installThreadIntrinsics() {
	m := func(kind byte) intrinsic {
		return func(in *Interp, a []Value, _ *Frame) Value { return in.mutexOp(a[0], kind) }
	}
	RegisterIntrinsic("(*sync.Mutex).Lock", m('L'))
	RegisterIntrinsic("(*sync.Mutex).Unlock", m('U'))
	RegisterIntrinsic("(*sync.Mutex).TryLock", m('T'))
	RegisterIntrinsic("(*sync.RWMutex).Lock", m('L'))
	RegisterIntrinsic("(*sync.RWMutex).Unlock", m('U'))
	RegisterIntrinsic("(*sync.RWMutex).TryLock", m('T'))
	RegisterIntrinsic("(*sync.RWMutex).RLock", m('R'))
	RegisterIntrinsic("(*sync.RWMutex).RUnlock", m('r'))
	if _, ok := intrinsics["(*sync.Cond).Wait"]; !ok {
		RegisterIntrinsic("(*sync.Cond).Wait", func(in *Interp, a []Value, _ *Frame) Value { return in.condWait(a) })
	}
	RegisterIntrinsic("(*sync.Cond).Broadcast", func(in *Interp, a []Value, _ *Frame) Value { return in.condSignal(a, "broadcast") })
	RegisterIntrinsic("(*sync.Cond).Signal", func(in *Interp, a []Value, _ *Frame) Value { return in.condSignal(a, "signal") })
	RegisterIntrinsic("(*sync.WaitGroup).Add", func(in *Interp, a []Value, _ *Frame) Value { return in.wgOp(a, "Add") })
	RegisterIntrinsic("(*sync.WaitGroup).Done", func(in *Interp, a []Value, _ *Frame) Value { return in.wgOp(a, "Done") })
	RegisterIntrinsic("(*sync.WaitGroup).Wait", func(in *Interp, a []Value, _ *Frame) Value { return in.wgOp(a, "Wait") })
	RegisterIntrinsic("(*sync.WaitGroup).Go", func(in *Interp, a []Value, fr *Frame) Value {
		in.wgOp([]Value{a[0], term.Const(64, 1)}, "Add")
		if in.ts.on {
			wg := a[0]
			f := a[1]
			in.spawnFunc(func() {
				in.call(f, nil, nil)
				in.wgOp([]Value{wg}, "Done")
			}, "WaitGroup.Go")
		} else {
			in.wgOp([]Value{a[0]}, "Done")
		}
		return Tuple(nil)
	})
}

func init() {
	RegisterIntrinsic(rt+"Goroutines", func(in *Interp, a []Value, _ *Frame) Value {
		b, _ := a[0].(*term.Term).BoolVal()
		in.ts.on = b
		if b {
			in.mainThread()
		}
		return Tuple(nil)
	})
	RegisterIntrinsic(rt+"SchedBound", func(in *Interp, a []Value, _ *Frame) Value {
		in.ts.bound = in.toInt(a[0], "SchedBound")
		return Tuple(nil)
	})
	RegisterIntrinsic(rt+"Yield", func(in *Interp, a []Value, _ *Frame) Value {
		// let every other ready thread run until it blocks or finishes
		if in.ts.on && len(in.ts.threads) > 1 {
			th := in.ts.cur
			for rounds := 0; rounds < 64; rounds++ {
				next := in.pickNext(th)
				if next == nil {
					break
				}
				// park as runnable; we are resumed when the others block or exit
				in.handoff(th, next)
				if len(in.readyThreads(th)) == 0 {
					break
				}
			}
		}
		return Tuple(nil)
	})
	RegisterIntrinsic("runtime.Gosched", func(in *Interp, a []Value, _ *Frame) Value {
		in.schedPoint("Gosched")
		return Tuple(nil)
	})
}
