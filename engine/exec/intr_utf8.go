package exec

import (
	"verif/engine/term"
)

// UTF-8 models for strings with symbolic bytes / symbolic runes. Lengths stay concrete: every
// decision that influences a length (encoding class of a rune, validity and width of a byte
// sequence) is a fork through in.decide, exactly like a branch in Go code would be.

func c8(v uint64) *term.Term { return term.Const(8, v) }

func inRange8(b *term.Term, lo, hi uint64) *term.Term {
	return term.BAnd(term.Ule(c8(lo), b), term.Ule(b, c8(hi)))
}

// decodeRuneSym decodes the rune starting at b[0] following utf8.DecodeRune (invalid or short
// sequences yield (U+FFFD, 1)). Returns the 32-bit rune term and the width.
func (in *Interp) decodeRuneSym(b []*term.Term) (*term.Term, int) {
	bad := term.Const(32, 0xFFFD)
	b0 := b[0]
	if in.decide(term.Ult(b0, c8(0x80)), nil, nil) {
		return term.Zext(b0, 32), 1
	}
	if in.decide(term.BOr(term.Ult(b0, c8(0xC2)), term.Ult(c8(0xF4), b0)), nil, nil) {
		return bad, 1
	}
	low6 := func(x *term.Term) *term.Term { return term.Extract(x, 5, 0) }
	cont := func(x *term.Term) *term.Term { return inRange8(x, 0x80, 0xBF) }
	if in.decide(term.Ult(b0, c8(0xE0)), nil, nil) { // 2 bytes
		if len(b) < 2 || !in.decide(cont(b[1]), nil, nil) {
			return bad, 1
		}
		return term.Zext(term.Concat(term.Extract(b0, 4, 0), low6(b[1])), 32), 2
	}
	if in.decide(term.Ult(b0, c8(0xF0)), nil, nil) { // 3 bytes
		if len(b) < 3 {
			return bad, 1
		}
		lo := term.Ite(term.Eq(b0, c8(0xE0)), c8(0xA0), c8(0x80))
		hi := term.Ite(term.Eq(b0, c8(0xED)), c8(0x9F), c8(0xBF))
		ok := term.BAnd(term.Ule(lo, b[1]), term.Ule(b[1], hi), cont(b[2]))
		if !in.decide(ok, nil, nil) {
			return bad, 1
		}
		return term.Zext(term.Concat(term.Extract(b0, 3, 0), low6(b[1]), low6(b[2])), 32), 3
	}
	if len(b) < 4 {
		return bad, 1
	}
	lo := term.Ite(term.Eq(b0, c8(0xF0)), c8(0x90), c8(0x80))
	hi := term.Ite(term.Eq(b0, c8(0xF4)), c8(0x8F), c8(0xBF))
	ok := term.BAnd(term.Ule(lo, b[1]), term.Ule(b[1], hi), cont(b[2]), cont(b[3]))
	if !in.decide(ok, nil, nil) {
		return bad, 1
	}
	return term.Zext(term.Concat(term.Extract(b0, 2, 0), low6(b[1]), low6(b[2]), low6(b[3])), 32), 4
}

// encodeRuneSym appends the UTF-8 encoding of the 32-bit rune term r (string(rune) / string([]rune)
// semantics: surrogates and out-of-range values encode U+FFFD).
func (in *Interp) encodeRuneSym(out []*term.Term, r *term.Term) []*term.Term {
	c32 := func(v uint64) *term.Term { return term.Const(32, v) }
	tail := func(hi, lo int) *term.Term { return term.Concat(term.Const(2, 2), term.Extract(r, hi, lo)) }
	if in.decide(term.Ult(r, c32(0x80)), nil, nil) {
		return append(out, term.Extract(r, 7, 0))
	}
	if in.decide(term.Ult(r, c32(0x800)), nil, nil) {
		return append(out, term.Concat(term.Const(3, 6), term.Extract(r, 10, 6)), tail(5, 0))
	}
	invalid := term.BOr(term.Ult(c32(0x10FFFF), r), term.BAnd(term.Ule(c32(0xD800), r), term.Ule(r, c32(0xDFFF))))
	if in.decide(invalid, nil, nil) {
		return append(out, c8(0xEF), c8(0xBF), c8(0xBD))
	}
	if in.decide(term.Ult(r, c32(0x10000)), nil, nil) {
		return append(out, term.Concat(term.Const(4, 0xE), term.Extract(r, 15, 12)), tail(11, 6), tail(5, 0))
	}
	return append(out, term.Concat(term.Const(5, 0x1E), term.Extract(r, 20, 18)), tail(17, 12), tail(11, 6), tail(5, 0))
}

// runesToStr models string([]rune).
func (in *Interp) runesToStr(s Slice) Str {
	var out []*term.Term
	for _, r := range in.sliceTerms(s) {
		out = in.encodeRuneSym(out, r)
	}
	return mkStr(out)
}
