package exec

// Engine-level model of the subset of package reflect used by golang/crypto
// (ssh.Marshal/Unmarshal, cryptobyte.ReadASN1Integer, internal/alias purego variant).
// reflect.Value is represented by RValue, reflect.Type by Iface{T: *reflect.rtype, V: RType}.
// The model works on the engine's own typed cells using go/types information, so the real
// reflective codecs of /repo run unchanged.

import (
	"fmt"
	"go/types"

	"golang.org/x/tools/go/ssa"
	"verif/engine/term"
)

// RType is the engine value behind a reflect.Type interface.
type RType struct{ T types.Type }

// RValue is the engine value of a reflect.Value.
type RValue struct {
	T   types.Type
	Ptr *Pointer // non-nil: addressable, the value lives at *Ptr
	V   Value    // otherwise the value itself
}

func (in *Interp) rtypeMarker() types.Type {
	if p := in.Prog.ImportedPackage("reflect"); p != nil {
		if m := p.Members["rtype"]; m != nil {
			return types.NewPointer(m.Type())
		}
	}
	panic(in.unsupported("reflect not loaded"))
}

func (in *Interp) mkRType(t types.Type) Value {
	if t == nil {
		return Iface{}
	}
	return Iface{T: in.rtypeMarker(), V: RType{T: t}}
}

func (in *Interp) rtypeOf(v Value) types.Type {
	switch x := v.(type) {
	case RType:
		return x.T
	case Iface:
		if rt, ok := x.V.(RType); ok {
			return rt.T
		}
	}
	panic(in.unsupported(fmt.Sprintf("reflect: not a type value: %T", v)))
}

func (in *Interp) rval(v Value) (RValue, bool) {
	switch x := v.(type) {
	case RValue:
		return x, true
	case *Struct: // zero reflect.Value
		return RValue{}, false
	}
	panic(in.unsupported(fmt.Sprintf("reflect: not a Value: %T", v)))
}

func (in *Interp) rvalMust(v Value, what string) RValue {
	r, ok := in.rval(v)
	if !ok || r.T == nil {
		in.goPanic(Iface{T: types.Typ[types.String], V: Str{S: "reflect: call of reflect.Value." + what + " on zero Value"}})
	}
	return r
}

func (in *Interp) rget(r RValue) Value {
	if r.Ptr != nil {
		return in.load(*r.Ptr)
	}
	return r.V
}

func rkind(t types.Type) uint64 {
	switch u := t.Underlying().(type) {
	case *types.Basic:
		switch u.Kind() {
		case types.Bool, types.UntypedBool:
			return 1
		case types.Int, types.UntypedInt:
			return 2
		case types.Int8:
			return 3
		case types.Int16:
			return 4
		case types.Int32, types.UntypedRune:
			return 5
		case types.Int64:
			return 6
		case types.Uint:
			return 7
		case types.Uint8:
			return 8
		case types.Uint16:
			return 9
		case types.Uint32:
			return 10
		case types.Uint64:
			return 11
		case types.Uintptr:
			return 12
		case types.Float32:
			return 13
		case types.Float64, types.UntypedFloat:
			return 14
		case types.Complex64:
			return 15
		case types.Complex128:
			return 16
		case types.String, types.UntypedString:
			return 24
		case types.UnsafePointer:
			return 26
		}
	case *types.Array:
		return 17
	case *types.Chan:
		return 18
	case *types.Signature:
		return 19
	case *types.Interface:
		return 20
	case *types.Map:
		return 21
	case *types.Pointer:
		return 22
	case *types.Slice:
		return 23
	case *types.Struct:
		return 25
	}
	return 0
}

func (in *Interp) reflectPanic(msg string) {
	in.goPanic(Iface{T: types.Typ[types.String], V: Str{S: "reflect: " + msg}})
}

func (in *Interp) rElem(r RValue) Value {
	switch u := r.T.Underlying().(type) {
	case *types.Pointer:
		p := in.rget(r).(Pointer)
		if p.Obj == nil {
			return &Struct{F: []Value{Pointer{}, Pointer{}, term.Const(64, 0)}}
		}
		pp := p
		return RValue{T: u.Elem(), Ptr: &pp}
	case *types.Interface:
		iv := in.rget(r).(Iface)
		if iv.T == nil {
			return &Struct{F: []Value{Pointer{}, Pointer{}, term.Const(64, 0)}}
		}
		return RValue{T: iv.T, V: iv.V}
	}
	in.reflectPanic("call of reflect.Value.Elem on " + r.T.String() + " Value")
	return nil
}

func (in *Interp) rField(r RValue, i int) Value {
	st, ok := r.T.Underlying().(*types.Struct)
	if !ok {
		in.reflectPanic("call of reflect.Value.Field on " + r.T.String() + " Value")
	}
	if i < 0 || i >= st.NumFields() {
		in.reflectPanic("Field index out of range")
	}
	ft := st.Field(i).Type()
	if r.Ptr != nil {
		np := append(append([]PathElem{}, r.Ptr.Path...), PathElem{I: i})
		p := Pointer{Obj: r.Ptr.Obj, Path: np}
		return RValue{T: ft, Ptr: &p}
	}
	return RValue{T: ft, V: copyVal(r.V.(*Struct).F[i])}
}

func (in *Interp) rIndex(r RValue, i int) Value {
	switch u := r.T.Underlying().(type) {
	case *types.Array:
		if i < 0 || i >= int(u.Len()) {
			in.reflectPanic("array index out of range")
		}
		if r.Ptr != nil {
			base := 0
			path := r.Ptr.Path
			if k := len(path); k > 0 && path[k-1].IsWin {
				base = path[k-1].I
				path = path[:k-1]
			}
			np := append(append([]PathElem{}, path...), PathElem{I: base + i})
			p := Pointer{Obj: r.Ptr.Obj, Path: np}
			return RValue{T: u.Elem(), Ptr: &p}
		}
		return RValue{T: u.Elem(), V: copyVal(r.V.(*Array).E[i])}
	case *types.Slice:
		s := in.rget(r).(Slice)
		if i < 0 || i >= s.Len {
			in.reflectPanic("slice index out of range")
		}
		p := in.sliceElemPtr(s, i)
		return RValue{T: u.Elem(), Ptr: &p}
	case *types.Basic:
		if u.Info()&types.IsString != 0 {
			s := in.rget(r).(Str)
			if i < 0 || i >= s.Len() {
				in.reflectPanic("string index out of range")
			}
			return RValue{T: types.Typ[types.Uint8], V: s.Bytes()[i]}
		}
	}
	in.reflectPanic("call of reflect.Value.Index on " + r.T.String() + " Value")
	return nil
}

func (in *Interp) rLen(r RValue) int {
	switch u := r.T.Underlying().(type) {
	case *types.Array:
		return int(u.Len())
	case *types.Slice:
		return in.rget(r).(Slice).Len
	case *types.Map:
		return len(in.rget(r).(*MapV).Keys)
	case *types.Chan:
		return len(in.rget(r).(*Chan).Q)
	case *types.Basic:
		if u.Info()&types.IsString != 0 {
			return in.rget(r).(Str).Len()
		}
	case *types.Pointer:
		if at, ok := u.Elem().Underlying().(*types.Array); ok {
			return int(at.Len())
		}
	}
	in.reflectPanic("call of reflect.Value.Len on " + r.T.String() + " Value")
	return 0
}

func (in *Interp) rSet(r RValue, v Value, what string) {
	if r.Ptr == nil {
		in.reflectPanic("reflect.Value." + what + " using unaddressable value")
	}
	in.store(*r.Ptr, v)
}

func (in *Interp) rIsNil(r RValue) *term.Term {
	switch x := in.rget(r).(type) {
	case Pointer:
		return term.Bool(x.Obj == nil)
	case Slice:
		return term.Bool(x.Nil)
	case *MapV:
		return term.Bool(x == nil || x.Nil)
	case *Chan:
		return term.Bool(x == nil || x.Nil)
	case *Closure:
		return term.Bool(x == nil)
	case Iface:
		return term.Bool(x.T == nil)
	}
	in.reflectPanic("call of reflect.Value.IsNil on " + r.T.String() + " Value")
	return nil
}

// assignable value for storing v (of static type vt) into a location of type t
func (in *Interp) rAssign(t types.Type, x RValue) Value {
	v := in.rget(x)
	if _, isI := t.Underlying().(*types.Interface); isI {
		if _, srcI := x.T.Underlying().(*types.Interface); !srcI {
			return Iface{T: x.T, V: v}
		}
	}
	return v
}

func (in *Interp) structFieldValue(st *types.Struct, i int) Value {
	f := st.Field(i)
	pkgPath := ""
	if !f.Exported() && f.Pkg() != nil {
		pkgPath = f.Pkg().Path()
	}
	// reflect.StructField{Name, PkgPath string; Type Type; Tag StructTag; Offset uintptr; Index []int; Anonymous bool}
	idx := in.newSlice(types.Typ[types.Int], []Value{term.Const(64, uint64(i))}, 1)
	return &Struct{F: []Value{Str{S: f.Name()}, Str{S: pkgPath}, in.mkRType(f.Type()), Str{S: st.Tag(i)}, term.Const(64, 0), idx, term.Bool(f.Embedded())}}
}

func typeString(t types.Type) string {
	return types.TypeString(t, func(p *types.Package) string { return p.Name() })
}

func (in *Interp) intTermOf(r RValue, what string) (*term.Term, bool) {
	w, sgn, ok := intWidth(r.T)
	if !ok {
		in.reflectPanic("call of reflect.Value." + what + " on " + r.T.String() + " Value")
	}
	_ = w
	return in.rget(r).(*term.Term), sgn
}

func init() {
	V := "(reflect.Value)."
	T := "(*reflect.rtype)."
	reg := RegisterIntrinsic
	reg("reflect.ValueOf", func(in *Interp, a []Value, _ *Frame) Value {
		iv := a[0].(Iface)
		if iv.T == nil {
			return &Struct{F: []Value{Pointer{}, Pointer{}, term.Const(64, 0)}}
		}
		return RValue{T: iv.T, V: iv.V}
	})
	reg("reflect.TypeOf", func(in *Interp, a []Value, _ *Frame) Value {
		iv := a[0].(Iface)
		return in.mkRType(iv.T)
	})
	reg("reflect.TypeFor", func(in *Interp, a []Value, _ *Frame) Value {
		ta := in.curFn.TypeArgs()
		if len(ta) != 1 {
			panic(in.unsupported("reflect.TypeFor without type argument"))
		}
		return in.mkRType(ta[0])
	})
	reg("reflect.Indirect", func(in *Interp, a []Value, _ *Frame) Value {
		r, ok := in.rval(a[0])
		if !ok {
			return a[0]
		}
		if _, isP := r.T.Underlying().(*types.Pointer); isP {
			return in.rElem(r)
		}
		return r
	})
	reg("reflect.Zero", func(in *Interp, a []Value, _ *Frame) Value {
		t := in.rtypeOf(a[0])
		return RValue{T: t, V: in.zero(t)}
	})
	reg("reflect.New", func(in *Interp, a []Value, _ *Frame) Value {
		t := in.rtypeOf(a[0])
		return RValue{T: types.NewPointer(t), V: Pointer{Obj: in.newObject(in.zero(t), t)}}
	})
	reg("reflect.DeepEqual", func(in *Interp, a []Value, _ *Frame) Value {
		return in.deepEqual(a[0], a[1], 0)
	})
	reg(V+"IsValid", func(in *Interp, a []Value, _ *Frame) Value {
		r, ok := in.rval(a[0])
		return term.Bool(ok && r.T != nil)
	})
	reg(V+"Kind", func(in *Interp, a []Value, _ *Frame) Value {
		r, ok := in.rval(a[0])
		if !ok || r.T == nil {
			return term.Const(64, 0)
		}
		return term.Const(64, rkind(r.T))
	})
	reg(V+"Type", func(in *Interp, a []Value, _ *Frame) Value {
		return in.mkRType(in.rvalMust(a[0], "Type").T)
	})
	reg(V+"Elem", func(in *Interp, a []Value, _ *Frame) Value { return in.rElem(in.rvalMust(a[0], "Elem")) })
	reg(V+"NumField", func(in *Interp, a []Value, _ *Frame) Value {
		r := in.rvalMust(a[0], "NumField")
		st, ok := r.T.Underlying().(*types.Struct)
		if !ok {
			in.reflectPanic("call of reflect.Value.NumField on " + r.T.String() + " Value")
		}
		return term.Const(64, uint64(st.NumFields()))
	})
	reg(V+"Field", func(in *Interp, a []Value, _ *Frame) Value {
		return in.rField(in.rvalMust(a[0], "Field"), in.toInt(a[1], "reflect Field index"))
	})
	reg(V+"Index", func(in *Interp, a []Value, _ *Frame) Value {
		return in.rIndex(in.rvalMust(a[0], "Index"), in.toInt(a[1], "reflect Index"))
	})
	reg(V+"Len", func(in *Interp, a []Value, _ *Frame) Value {
		return term.Const(64, uint64(in.rLen(in.rvalMust(a[0], "Len"))))
	})
	reg(V+"Cap", func(in *Interp, a []Value, _ *Frame) Value {
		r := in.rvalMust(a[0], "Cap")
		if s, ok := in.rget(r).(Slice); ok {
			return term.Const(64, uint64(s.Cap))
		}
		return term.Const(64, uint64(in.rLen(r)))
	})
	reg(V+"IsNil", func(in *Interp, a []Value, _ *Frame) Value { return in.rIsNil(in.rvalMust(a[0], "IsNil")) })
	reg(V+"IsZero", func(in *Interp, a []Value, _ *Frame) Value {
		r := in.rvalMust(a[0], "IsZero")
		return in.deepEqual(Iface{T: r.T, V: in.rget(r)}, Iface{T: r.T, V: in.zero(r.T)}, 0)
	})
	reg(V+"CanSet", func(in *Interp, a []Value, _ *Frame) Value {
		r, ok := in.rval(a[0])
		return term.Bool(ok && r.Ptr != nil)
	})
	reg(V+"CanAddr", func(in *Interp, a []Value, _ *Frame) Value {
		r, ok := in.rval(a[0])
		return term.Bool(ok && r.Ptr != nil)
	})
	reg(V+"CanInterface", func(in *Interp, a []Value, _ *Frame) Value { return term.True })
	reg(V+"Addr", func(in *Interp, a []Value, _ *Frame) Value {
		r := in.rvalMust(a[0], "Addr")
		if r.Ptr == nil {
			in.reflectPanic("reflect.Value.Addr of unaddressable value")
		}
		return RValue{T: types.NewPointer(r.T), V: *r.Ptr}
	})
	reg(V+"Interface", func(in *Interp, a []Value, _ *Frame) Value {
		r := in.rvalMust(a[0], "Interface")
		v := in.rget(r)
		if _, isI := r.T.Underlying().(*types.Interface); isI {
			return v
		}
		return Iface{T: r.T, V: v}
	})
	reg(V+"Bool", func(in *Interp, a []Value, _ *Frame) Value { return in.rget(in.rvalMust(a[0], "Bool")) })
	reg(V+"Int", func(in *Interp, a []Value, _ *Frame) Value {
		t, _ := in.intTermOf(in.rvalMust(a[0], "Int"), "Int")
		return term.Sext(t, 64)
	})
	reg(V+"Uint", func(in *Interp, a []Value, _ *Frame) Value {
		t, _ := in.intTermOf(in.rvalMust(a[0], "Uint"), "Uint")
		return term.Zext(t, 64)
	})
	reg(V+"String", func(in *Interp, a []Value, _ *Frame) Value {
		r, ok := in.rval(a[0])
		if !ok || r.T == nil {
			return Str{S: "<invalid Value>"}
		}
		if s, ok := in.rget(r).(Str); ok {
			return s
		}
		return Str{S: "<" + typeString(r.T) + " Value>"}
	})
	reg(V+"Bytes", func(in *Interp, a []Value, _ *Frame) Value {
		r := in.rvalMust(a[0], "Bytes")
		if s, ok := in.rget(r).(Slice); ok {
			return s
		}
		in.reflectPanic("reflect.Value.Bytes of non-byte slice")
		return nil
	})
	reg(V+"Pointer", func(in *Interp, a []Value, _ *Frame) Value {
		r := in.rvalMust(a[0], "Pointer")
		switch x := in.rget(r).(type) {
		case Pointer:
			return in.pointerAddr(x)
		case Slice:
			if x.Obj == nil {
				return term.Const(64, 0)
			}
			return in.pointerAddr(in.sliceElemPtr(x, 0))
		}
		panic(in.unsupported("reflect.Value.Pointer on " + r.T.String()))
	})
	reg(V+"UnsafePointer", func(in *Interp, a []Value, _ *Frame) Value {
		r := in.rvalMust(a[0], "UnsafePointer")
		return in.rget(r)
	})
	reg(V+"OverflowInt", func(in *Interp, a []Value, _ *Frame) Value {
		r := in.rvalMust(a[0], "OverflowInt")
		w, _, ok := intWidth(r.T)
		if !ok {
			in.reflectPanic("reflect.Value.OverflowInt of non-int")
		}
		x := a[1].(*term.Term)
		if w == 64 {
			return term.False
		}
		return term.BNot(term.Eq(term.Sext(term.Extract(x, w-1, 0), 64), x))
	})
	reg(V+"OverflowUint", func(in *Interp, a []Value, _ *Frame) Value {
		r := in.rvalMust(a[0], "OverflowUint")
		w, _, ok := intWidth(r.T)
		if !ok {
			in.reflectPanic("reflect.Value.OverflowUint of non-uint")
		}
		x := a[1].(*term.Term)
		if w == 64 {
			return term.False
		}
		return term.BNot(term.Eq(term.Zext(term.Extract(x, w-1, 0), 64), x))
	})
	reg(V+"Set", func(in *Interp, a []Value, _ *Frame) Value {
		r := in.rvalMust(a[0], "Set")
		x := in.rvalMust(a[1], "Set")
		in.rSet(r, in.rAssign(r.T, x), "Set")
		return Tuple(nil)
	})
	reg(V+"SetBool", func(in *Interp, a []Value, _ *Frame) Value {
		in.rSet(in.rvalMust(a[0], "SetBool"), a[1], "SetBool")
		return Tuple(nil)
	})
	setInt := func(name string) {
		reg(V+name, func(in *Interp, a []Value, _ *Frame) Value {
			r := in.rvalMust(a[0], name)
			w, _, ok := intWidth(r.T)
			if !ok {
				in.reflectPanic("reflect.Value." + name + " on " + r.T.String())
			}
			x := a[1].(*term.Term)
			if w < 64 {
				x = term.Extract(x, w-1, 0)
			}
			in.rSet(r, x, name)
			return Tuple(nil)
		})
	}
	setInt("SetInt")
	setInt("SetUint")
	reg(V+"SetString", func(in *Interp, a []Value, _ *Frame) Value {
		in.rSet(in.rvalMust(a[0], "SetString"), a[1], "SetString")
		return Tuple(nil)
	})
	reg(V+"SetBytes", func(in *Interp, a []Value, _ *Frame) Value {
		in.rSet(in.rvalMust(a[0], "SetBytes"), a[1], "SetBytes")
		return Tuple(nil)
	})

	// reflect.Type methods (receiver: RType)
	reg(T+"Kind", func(in *Interp, a []Value, _ *Frame) Value { return term.Const(64, rkind(in.rtypeOf(a[0]))) })
	reg(T+"Elem", func(in *Interp, a []Value, _ *Frame) Value {
		t := in.rtypeOf(a[0])
		switch u := t.Underlying().(type) {
		case *types.Pointer:
			return in.mkRType(u.Elem())
		case *types.Slice:
			return in.mkRType(u.Elem())
		case *types.Array:
			return in.mkRType(u.Elem())
		case *types.Map:
			return in.mkRType(u.Elem())
		case *types.Chan:
			return in.mkRType(u.Elem())
		}
		in.reflectPanic("Elem of invalid type " + t.String())
		return nil
	})
	reg(T+"Key", func(in *Interp, a []Value, _ *Frame) Value {
		t := in.rtypeOf(a[0])
		if u, ok := t.Underlying().(*types.Map); ok {
			return in.mkRType(u.Key())
		}
		in.reflectPanic("Key of non-map type " + t.String())
		return nil
	})
	reg(T+"Len", func(in *Interp, a []Value, _ *Frame) Value {
		t := in.rtypeOf(a[0])
		if u, ok := t.Underlying().(*types.Array); ok {
			return term.Const(64, uint64(u.Len()))
		}
		in.reflectPanic("Len of non-array type " + t.String())
		return nil
	})
	reg(T+"NumField", func(in *Interp, a []Value, _ *Frame) Value {
		t := in.rtypeOf(a[0])
		if u, ok := t.Underlying().(*types.Struct); ok {
			return term.Const(64, uint64(u.NumFields()))
		}
		in.reflectPanic("NumField of non-struct type " + t.String())
		return nil
	})
	reg(T+"Field", func(in *Interp, a []Value, _ *Frame) Value {
		t := in.rtypeOf(a[0])
		i := in.toInt(a[1], "reflect Type.Field index")
		u, ok := t.Underlying().(*types.Struct)
		if !ok {
			in.reflectPanic("Field of non-struct type " + t.String())
		}
		if i < 0 || i >= u.NumFields() {
			in.reflectPanic("Field index out of bounds")
		}
		return in.structFieldValue(u, i)
	})
	reg(T+"Name", func(in *Interp, a []Value, _ *Frame) Value {
		t := in.rtypeOf(a[0])
		switch n := t.(type) {
		case *types.Named:
			return Str{S: n.Obj().Name()}
		case *types.Basic:
			return Str{S: n.Name()}
		case *types.Alias:
			return Str{S: n.Obj().Name()}
		}
		return Str{}
	})
	reg(T+"PkgPath", func(in *Interp, a []Value, _ *Frame) Value {
		t := in.rtypeOf(a[0])
		if n, ok := t.(*types.Named); ok && n.Obj().Pkg() != nil {
			return Str{S: n.Obj().Pkg().Path()}
		}
		return Str{}
	})
	reg(T+"String", func(in *Interp, a []Value, _ *Frame) Value { return Str{S: typeString(in.rtypeOf(a[0]))} })
	reg(T+"Bits", func(in *Interp, a []Value, _ *Frame) Value {
		t := in.rtypeOf(a[0])
		if w, _, ok := intWidth(t); ok {
			return term.Const(64, uint64(w))
		}
		return term.Const(64, uint64(in.Sizes.Sizeof(t)*8))
	})
	reg(T+"Size", func(in *Interp, a []Value, _ *Frame) Value {
		return term.Const(64, uint64(in.Sizes.Sizeof(in.rtypeOf(a[0]))))
	})
	reg(T+"Comparable", func(in *Interp, a []Value, _ *Frame) Value {
		return term.Bool(types.Comparable(in.rtypeOf(a[0])))
	})
	reg(T+"Implements", func(in *Interp, a []Value, _ *Frame) Value {
		t := in.rtypeOf(a[0])
		u := in.rtypeOf(a[1])
		if it, ok := u.Underlying().(*types.Interface); ok {
			return term.Bool(types.Implements(t, it))
		}
		in.reflectPanic("non-interface type passed to Type.Implements")
		return nil
	})
	reg(T+"AssignableTo", func(in *Interp, a []Value, _ *Frame) Value {
		return term.Bool(types.AssignableTo(in.rtypeOf(a[0]), in.rtypeOf(a[1])))
	})
	reg(T+"ConvertibleTo", func(in *Interp, a []Value, _ *Frame) Value {
		return term.Bool(types.ConvertibleTo(in.rtypeOf(a[0]), in.rtypeOf(a[1])))
	})
}

// deepEqual: structural equality as a term (reflect.DeepEqual on the modelled subset).
func (in *Interp) deepEqual(a, b Value, depth int) *term.Term {
	if depth > 40 {
		panic(in.unsupported("reflect.DeepEqual: too deep"))
	}
	switch x := a.(type) {
	case Iface:
		y, ok := b.(Iface)
		if !ok {
			return term.False
		}
		if x.T == nil || y.T == nil {
			return term.Bool(x.T == nil && y.T == nil)
		}
		if !types.Identical(x.T, y.T) {
			return term.False
		}
		return in.deepEqual(x.V, y.V, depth+1)
	case *term.Term:
		if y, ok := b.(*term.Term); ok && x.W == y.W {
			return term.Eq(x, y)
		}
		return term.False
	case Str:
		if y, ok := b.(Str); ok {
			return strEq(x, y)
		}
		return term.False
	case Pointer:
		y, ok := b.(Pointer)
		if !ok {
			return term.False
		}
		if x.Obj == nil || y.Obj == nil {
			return term.Bool(x.Obj == nil && y.Obj == nil)
		}
		if x.Obj == y.Obj && pathEq(x.Path, y.Path) {
			return term.True
		}
		return in.deepEqual(in.load(x), in.load(y), depth+1)
	case Slice:
		y, ok := b.(Slice)
		if !ok {
			return term.False
		}
		if x.Nil != y.Nil || x.Len != y.Len {
			return term.False
		}
		cs := []*term.Term{}
		for i := 0; i < x.Len; i++ {
			cs = append(cs, in.deepEqual(in.load(in.sliceElemPtr(x, i)), in.load(in.sliceElemPtr(y, i)), depth+1))
		}
		return term.BAnd(cs...)
	case *Struct:
		y, ok := b.(*Struct)
		if !ok || len(x.F) != len(y.F) {
			return term.False
		}
		cs := []*term.Term{}
		for i := range x.F {
			cs = append(cs, in.deepEqual(x.F[i], y.F[i], depth+1))
		}
		return term.BAnd(cs...)
	case *Array:
		y, ok := b.(*Array)
		if !ok || len(x.E) != len(y.E) {
			return term.False
		}
		cs := []*term.Term{}
		for i := range x.E {
			cs = append(cs, in.deepEqual(x.E[i], y.E[i], depth+1))
		}
		return term.BAnd(cs...)
	case *MapV:
		y, ok := b.(*MapV)
		if !ok {
			return term.False
		}
		if x.Nil != y.Nil || len(x.Keys) != len(y.Keys) {
			return term.False
		}
		cs := []*term.Term{}
		for i, k := range x.Keys {
			j := -1
			for jj, k2 := range y.Keys {
				if bv, ok := in.valueEq(k, k2).BoolVal(); ok && bv {
					j = jj
					break
				}
			}
			if j < 0 {
				panic(in.unsupported("reflect.DeepEqual on maps with symbolic keys"))
			}
			cs = append(cs, in.deepEqual(x.Vals[i], y.Vals[j], depth+1))
		}
		return term.BAnd(cs...)
	case *Closure:
		y, ok := b.(*Closure)
		return term.Bool(ok && x == nil && y == nil)
	case RType:
		y, ok := b.(RType)
		return term.Bool(ok && types.Identical(x.T, y.T))
	}
	panic(in.unsupported(fmt.Sprintf("reflect.DeepEqual on %T", a)))
}

var _ = ssa.Function{}
