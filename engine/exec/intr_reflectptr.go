package exec

import (
	"go/types"

	"verif/engine/term"
)

// Minimal model of reflect.ValueOf(p).Pointer() for pointer-typed p, as used by the purego
// variant of golang.org/x/crypto/internal/alias (the engine loads the purego files). The
// reflect.Value is modelled as its three-field struct {typ_, ptr, flag} with only ptr
// meaningful; Pointer() returns the same address model as unsafe.Pointer -> uintptr
// (pointerAddr). Any other use of reflect.ValueOf stays unsupported.
func init() {
	RegisterIntrinsic("reflect.ValueOf", func(in *Interp, a []Value, _ *Frame) Value {
		ifc, ok := a[0].(Iface)
		if !ok || ifc.T == nil {
			panic(in.unsupported("reflect.ValueOf of nil / non-interface value"))
		}
		if _, isPtr := ifc.T.Underlying().(*types.Pointer); !isPtr {
			panic(in.unsupported("reflect.ValueOf of non-pointer type " + ifc.T.String() + " (only pointers are modelled)"))
		}
		p, ok := ifc.V.(Pointer)
		if !ok {
			panic(in.unsupported("reflect.ValueOf: pointer value not modelled"))
		}
		return &Struct{F: []Value{Pointer{}, p, term.Const(64, 22)}} // flag: Kind = Pointer
	})
	ptrOf := func(in *Interp, a []Value, _ *Frame) Value {
		s, ok := a[0].(*Struct)
		if !ok || len(s.F) != 3 {
			panic(in.unsupported("(reflect.Value).Pointer on unmodelled value"))
		}
		p, ok := s.F[1].(Pointer)
		if !ok {
			panic(in.unsupported("(reflect.Value).Pointer on unmodelled value"))
		}
		return in.pointerAddr(p)
	}
	RegisterIntrinsic("(reflect.Value).Pointer", ptrOf)
}
