package exec

// A small symbolic interpreter for scalar amd64 Plan 9 assembly, sufficient for
// internal/poly1305/sum_amd64.s (MOVQ MOVB ADDQ ADCQ SUBQ MULQ IMULQ ANDQ ORQ XORQ SHRQ SHLQ
// (also the double-register forms) LEAQ CMPQ TESTQ DECQ INCQ NEGQ JMP Jcc RET). A function without a
// Go body whose package has a matching `TEXT ·name(SB)` in an amd64 .s file is executed by
// this interpreter when the package was loaded without the purego tag. Registers hold 64-bit
// terms or pointers (object + concrete byte offset); memory operands are resolved through the
// engine's typed cells byte by byte (little endian), so the assembly sees the same state the
// Go code sees. SIMD instructions are not supported (the path ends as unsupported).

import (
	"fmt"
	"go/types"
	"os"
	"path/filepath"
	"regexp"
	"strconv"
	"strings"

	"golang.org/x/tools/go/ssa"
	"verif/engine/term"
)

type asmPtr struct {
	obj  *Object
	path []PathElem // container holding the bytes
	typ  types.Type // type of that container
	off  int        // byte offset inside the container
}

type asmVal struct {
	t *term.Term
	p *asmPtr
}

type asmInstr struct {
	label string
	op    string
	args  []string
	line  int
}

type asmFunc struct {
	name   string
	instrs []asmInstr
	labels map[string]int
	file   string
}

var asmCache = map[string]*asmFunc{}

var asmTextRe = regexp.MustCompile(`^TEXT\s+·(\w+)\(SB\)`)

func loadAsm(dir, name string) *asmFunc {
	key := dir + "·" + name
	if f, ok := asmCache[key]; ok {
		return f
	}
	asmCache[key] = nil
	files, _ := filepath.Glob(filepath.Join(dir, "*_amd64.s"))
	for _, file := range files {
		b, err := os.ReadFile(file)
		if err != nil {
			continue
		}
		lines := strings.Split(string(b), "\n")
		for i := 0; i < len(lines); i++ {
			m := asmTextRe.FindStringSubmatch(strings.TrimSpace(lines[i]))
			if m == nil || m[1] != name {
				continue
			}
			f := &asmFunc{name: name, labels: map[string]int{}, file: file}
			for j := i + 1; j < len(lines); j++ {
				l := lines[j]
				if k := strings.Index(l, "//"); k >= 0 {
					l = l[:k]
				}
				l = strings.TrimSpace(l)
				if l == "" {
					continue
				}
				if strings.HasPrefix(l, "TEXT") {
					break
				}
				if strings.HasSuffix(l, ":") && !strings.ContainsAny(l, " \t") {
					f.labels[strings.TrimSuffix(l, ":")] = len(f.instrs)
					continue
				}
				fields := strings.SplitN(l, " ", 2)
				op := strings.TrimSpace(fields[0])
				var args []string
				if len(fields) > 1 {
					for _, a := range strings.Split(fields[1], ",") {
						args = append(args, strings.TrimSpace(a))
					}
				}
				f.instrs = append(f.instrs, asmInstr{op: op, args: args, line: j + 1})
			}
			asmCache[key] = f
			return f
		}
	}
	return nil
}

// tryAsm runs the assembly body of fn, if one can be found.
func (in *Interp) tryAsm(fn *ssa.Function, args []Value) (Value, bool) {
	if fn.Pkg == nil || fn.Signature.Recv() != nil {
		return nil, false
	}
	pos := fn.Pos()
	if !pos.IsValid() {
		return nil, false
	}
	dir := filepath.Dir(in.Prog.Fset.Position(pos).Filename)
	af := loadAsm(dir, fn.Name())
	if af == nil {
		return nil, false
	}
	if fn.Signature.Results().Len() != 0 {
		panic(in.unsupported("assembly function with results: " + fn.String()))
	}
	in.FuncsSeen[fn.String()+" [amd64 assembly "+filepath.Base(af.file)+"]"] = true
	m := &asmMachine{in: in, f: af, regs: map[string]asmVal{}, fp: map[int]asmVal{}}
	// ABI0 argument frame
	off := 0
	params := fn.Signature.Params()
	for i := 0; i < params.Len(); i++ {
		t := params.At(i).Type()
		switch u := t.Underlying().(type) {
		case *types.Pointer:
			p := args[i].(Pointer)
			if p.Obj == nil {
				m.fp[off] = asmVal{t: term.Const(64, 0)}
			} else {
				m.fp[off] = asmVal{p: &asmPtr{obj: p.Obj, path: p.Path, typ: u.Elem()}}
			}
			off += 8
		case *types.Slice:
			s := args[i].(Slice)
			es := int(in.Sizes.Sizeof(u.Elem()))
			if s.Obj == nil {
				m.fp[off] = asmVal{t: term.Const(64, 0)}
			} else {
				n := len(in.sliceArray(s).E)
				m.fp[off] = asmVal{p: &asmPtr{obj: s.Obj, path: s.Path, typ: types.NewArray(u.Elem(), int64(n)), off: s.Off * es}}
			}
			m.fp[off+8] = asmVal{t: term.Const(64, uint64(s.Len))}
			m.fp[off+16] = asmVal{t: term.Const(64, uint64(s.Cap))}
			off += 24
		case *types.Basic:
			if w, _, ok := intWidth(t); ok {
				m.fp[off] = asmVal{t: term.Zext(args[i].(*term.Term), 64)}
				_ = w
				off += 8
				break
			}
			panic(in.unsupported("assembly argument of type " + t.String()))
		default:
			panic(in.unsupported("assembly argument of type " + t.String()))
		}
	}
	m.run()
	return Tuple(nil), true
}

type asmMachine struct {
	in     *Interp
	f      *asmFunc
	regs   map[string]asmVal
	fp     map[int]asmVal
	cf, zf *term.Term
}

func (m *asmMachine) bad(ins asmInstr, msg string) pathEnd {
	return m.in.unsupported(fmt.Sprintf("asm %s:%d %s %v: %s", filepath.Base(m.f.file), ins.line, ins.op, ins.args, msg))
}

var asmMemRe = regexp.MustCompile(`^(-?\w*)\((\w+)\)$`)
var asmFPRe = regexp.MustCompile(`^\w+\+(\d+)\(FP\)$`)

func isReg(s string) bool {
	switch s {
	case "AX", "BX", "CX", "DX", "SI", "DI", "BP", "R8", "R9", "R10", "R11", "R12", "R13", "R14", "R15":
		return true
	}
	return false
}

func parseImm(s string) (uint64, bool) {
	if !strings.HasPrefix(s, "$") {
		return 0, false
	}
	v, err := strconv.ParseInt(s[1:], 0, 64)
	if err != nil {
		u, err2 := strconv.ParseUint(s[1:], 0, 64)
		if err2 != nil {
			return 0, false
		}
		return u, true
	}
	return uint64(v), true
}

// mem resolves a memory operand to a pointer.
func (m *asmMachine) mem(ins asmInstr, s string) (*asmPtr, bool) {
	mm := asmMemRe.FindStringSubmatch(s)
	if mm == nil || !isReg(mm[2]) {
		return nil, false
	}
	disp := 0
	if mm[1] != "" {
		d, err := strconv.ParseInt(mm[1], 0, 64)
		if err != nil {
			return nil, false
		}
		disp = int(d)
	}
	base := m.regs[mm[2]]
	if base.p == nil {
		panic(m.bad(ins, "memory operand through a non-pointer register "+mm[2]))
	}
	p := *base.p
	p.off += disp
	return &p, true
}

// locate finds the scalar cell containing byte off of a value of type t.
func (m *asmMachine) locate(v Value, t types.Type, off int, path []PathElem) (cellPath []PathElem, width int, inner int, ok bool) {
	switch u := t.Underlying().(type) {
	case *types.Struct:
		fields := make([]*types.Var, u.NumFields())
		for i := range fields {
			fields[i] = u.Field(i)
		}
		offs := m.in.Sizes.Offsetsof(fields)
		for i := len(fields) - 1; i >= 0; i-- {
			if int(offs[i]) <= off {
				sz := int(m.in.Sizes.Sizeof(fields[i].Type()))
				if off-int(offs[i]) >= sz {
					return nil, 0, 0, false
				}
				return m.locate(v.(*Struct).F[i], fields[i].Type(), off-int(offs[i]), append(path, PathElem{I: i}))
			}
		}
	case *types.Array:
		es := int(m.in.Sizes.Sizeof(u.Elem()))
		if es == 0 {
			return nil, 0, 0, false
		}
		idx := off / es
		a := v.(*Array)
		if idx < 0 || idx >= len(a.E) {
			return nil, 0, 0, false
		}
		return m.locate(a.E[idx], u.Elem(), off-idx*es, append(path, PathElem{I: idx}))
	case *types.Basic:
		if w, _, isInt := intWidth(t); isInt {
			return path, w / 8, off, off >= 0 && off < w/8
		}
	}
	return nil, 0, 0, false
}

func (m *asmMachine) loadBytes(ins asmInstr, p *asmPtr, n int) *term.Term {
	get, _ := m.in.slot(p.obj, p.path)
	root := get()
	parts := make([]*term.Term, n) // most significant first
	for i := 0; i < n; i++ {
		cp, _, inner, ok := m.locate(root, p.typ, p.off+i, nil)
		if !ok {
			m.in.goPanicRuntime(fmt.Sprintf("assembly load out of bounds (offset %d) at %s:%d", p.off+i, filepath.Base(m.f.file), ins.line))
		}
		full := append(append([]PathElem{}, p.path...), cp...)
		cell := m.in.load(Pointer{Obj: p.obj, Path: full}).(*term.Term)
		parts[n-1-i] = term.Extract(cell, 8*inner+7, 8*inner)
	}
	return term.Concat(parts...)
}

func (m *asmMachine) storeBytes(ins asmInstr, p *asmPtr, v *term.Term, n int) {
	get, _ := m.in.slot(p.obj, p.path)
	root := get()
	for i := 0; i < n; i++ {
		cp, w, inner, ok := m.locate(root, p.typ, p.off+i, nil)
		if !ok {
			m.in.goPanicRuntime(fmt.Sprintf("assembly store out of bounds (offset %d) at %s:%d", p.off+i, filepath.Base(m.f.file), ins.line))
		}
		full := append(append([]PathElem{}, p.path...), cp...)
		ptr := Pointer{Obj: p.obj, Path: full}
		cell := m.in.load(ptr).(*term.Term)
		b := term.Extract(v, 8*i+7, 8*i)
		var parts []*term.Term
		if 8*inner+8 < 8*w {
			parts = append(parts, term.Extract(cell, 8*w-1, 8*inner+8))
		}
		parts = append(parts, b)
		if inner > 0 {
			parts = append(parts, term.Extract(cell, 8*inner-1, 0))
		}
		m.in.store(ptr, term.Concat(parts...))
	}
}

// src evaluates a source operand as a 64-bit value (or a pointer).
func (m *asmMachine) src(ins asmInstr, s string, bytes int) asmVal {
	if v, ok := parseImm(s); ok {
		return asmVal{t: term.Const(64, v)}
	}
	if isReg(s) {
		v, ok := m.regs[s]
		if !ok {
			panic(m.bad(ins, "read of uninitialised register "+s))
		}
		return v
	}
	if mm := asmFPRe.FindStringSubmatch(s); mm != nil {
		off, _ := strconv.Atoi(mm[1])
		v, ok := m.fp[off]
		if !ok {
			panic(m.bad(ins, "unknown argument slot "+s))
		}
		return v
	}
	if p, ok := m.mem(ins, s); ok {
		return asmVal{t: term.Zext(m.loadBytes(ins, p, bytes), 64)}
	}
	panic(m.bad(ins, "unsupported operand "+s))
}

func (m *asmMachine) intOf(ins asmInstr, v asmVal) *term.Term {
	if v.p != nil {
		panic(m.bad(ins, "pointer used as integer"))
	}
	return v.t
}

func (m *asmMachine) setDst(ins asmInstr, s string, v asmVal, bytes int) {
	if isReg(s) {
		if bytes == 1 && v.p == nil {
			old, ok := m.regs[s]
			if ok && old.p == nil {
				v = asmVal{t: term.Concat(term.Extract(old.t, 63, 8), term.Extract(v.t, 7, 0))}
			}
		}
		m.regs[s] = v
		return
	}
	if p, ok := m.mem(ins, s); ok {
		m.storeBytes(ins, p, m.intOf(ins, v), bytes)
		return
	}
	panic(m.bad(ins, "unsupported destination "+s))
}

func (m *asmMachine) setZF(r *term.Term) { m.zf = term.Eq(r, term.Const(r.W, 0)) }

func (m *asmMachine) cond(ins asmInstr, f *term.Term) bool {
	if f == nil {
		panic(m.bad(ins, "conditional jump on undefined flag"))
	}
	return m.in.decide(f, nil, nil)
}

func (m *asmMachine) run() {
	pc := 0
	steps := 0
	for {
		if pc >= len(m.f.instrs) {
			panic(m.in.unsupported("assembly fell off the end of " + m.f.name))
		}
		steps++
		m.in.steps++
		if steps > 2000000 || m.in.steps > m.in.maxSteps {
			panic(pathEnd{endSteps, "assembly step limit"})
		}
		ins := m.f.instrs[pc]
		pc++
		a := ins.args
		jump := func(label string) {
			t, ok := m.f.labels[label]
			if !ok {
				panic(m.bad(ins, "unknown label "+label))
			}
			pc = t
		}
		add := func(x, y, c *term.Term) *term.Term {
			s := term.AddN(term.Zext(x, 65), term.Zext(y, 65), term.Zext(c, 65))
			m.cf = term.Eq(term.Extract(s, 64, 64), term.Const(1, 1))
			r := term.Extract(s, 63, 0)
			m.setZF(r)
			return r
		}
		carry := func() *term.Term {
			if m.cf == nil {
				panic(m.bad(ins, "carry flag undefined"))
			}
			return term.Ite(m.cf, term.Const(1, 1), term.Const(1, 0))
		}
		switch ins.op {
		case "RET":
			return
		case "JMP":
			jump(a[0])
		case "JB", "JCS", "JLO":
			if m.cond(ins, m.cf) {
				jump(a[0])
			}
		case "JAE", "JCC", "JHS":
			if !m.cond(ins, m.cf) {
				jump(a[0])
			}
		case "JZ", "JE", "JEQ":
			if m.cond(ins, m.zf) {
				jump(a[0])
			}
		case "JNZ", "JNE":
			if !m.cond(ins, m.zf) {
				jump(a[0])
			}
		case "MOVQ":
			m.setDst(ins, a[1], m.src(ins, a[0], 8), 8)
		case "MOVB":
			m.setDst(ins, a[1], m.src(ins, a[0], 1), 1)
		case "MOVL":
			v := m.src(ins, a[0], 4)
			m.setDst(ins, a[1], asmVal{t: term.Zext(term.Extract(m.intOf(ins, v), 31, 0), 64)}, 8)
		case "LEAQ":
			p, ok := m.mem(ins, a[0])
			if !ok {
				panic(m.bad(ins, "unsupported LEAQ operand"))
			}
			m.regs[a[1]] = asmVal{p: p}
		case "ADDQ", "ADCQ":
			s := m.src(ins, a[0], 8)
			d := m.src(ins, a[1], 8)
			if d.p != nil {
				// pointer arithmetic: the increment must be concrete
				k, ok := m.intOf(ins, s).S64()
				if !ok || ins.op == "ADCQ" {
					panic(m.bad(ins, "symbolic pointer arithmetic"))
				}
				p := *d.p
				p.off += int(k)
				m.regs[a[1]] = asmVal{p: &p}
				break
			}
			c := term.Const(1, 0)
			if ins.op == "ADCQ" {
				c = carry()
			}
			m.setDst(ins, a[1], asmVal{t: add(m.intOf(ins, d), m.intOf(ins, s), c)}, 8)
		case "SUBQ", "SBBQ", "CMPQ":
			var x, y *term.Term
			if ins.op == "CMPQ" {
				x, y = m.intOf(ins, m.src(ins, a[0], 8)), m.intOf(ins, m.src(ins, a[1], 8))
			} else {
				x, y = m.intOf(ins, m.src(ins, a[1], 8)), m.intOf(ins, m.src(ins, a[0], 8))
			}
			b := term.Const(1, 0)
			if ins.op == "SBBQ" {
				b = carry()
			}
			d := term.Sub(term.Sub(term.Zext(x, 65), term.Zext(y, 65)), term.Zext(b, 65))
			m.cf = term.Eq(term.Extract(d, 64, 64), term.Const(1, 1))
			r := term.Extract(d, 63, 0)
			m.setZF(r)
			if ins.op != "CMPQ" {
				m.setDst(ins, a[1], asmVal{t: r}, 8)
			}
		case "DECQ", "INCQ":
			d := m.src(ins, a[0], 8)
			if d.p != nil {
				p := *d.p
				if ins.op == "DECQ" {
					p.off--
				} else {
					p.off++
				}
				m.regs[a[0]] = asmVal{p: &p}
				m.zf = term.False // a valid pointer is not zero
				break
			}
			k := term.Const(64, 1)
			var r *term.Term
			if ins.op == "DECQ" {
				r = term.Sub(d.t, k)
			} else {
				r = term.Add(d.t, k)
			}
			m.setZF(r)
			m.setDst(ins, a[0], asmVal{t: r}, 8)
		case "NEGQ":
			d := m.intOf(ins, m.src(ins, a[0], 8))
			r := term.Neg(d)
			m.cf = term.BNot(term.Eq(d, term.Const(64, 0)))
			m.setZF(r)
			m.setDst(ins, a[0], asmVal{t: r}, 8)
		case "ANDQ", "ORQ", "XORQ", "TESTQ":
			if ins.op == "XORQ" && a[0] == a[1] && isReg(a[0]) {
				// zeroing idiom: does not read the register
				m.regs[a[0]] = asmVal{t: term.Const(64, 0)}
				m.cf, m.zf = term.False, term.True
				break
			}
			x := m.intOf(ins, m.src(ins, a[0], 8))
			y := m.intOf(ins, m.src(ins, a[1], 8))
			var r *term.Term
			switch ins.op {
			case "ANDQ", "TESTQ":
				r = term.And(x, y)
			case "ORQ":
				r = term.Or(x, y)
			default:
				r = term.Xor(x, y)
			}
			m.cf = term.False
			m.setZF(r)
			if ins.op != "TESTQ" {
				m.setDst(ins, a[1], asmVal{t: r}, 8)
			}
		case "SHRQ", "SHLQ":
			n, ok := parseImm(a[0])
			if !ok || n == 0 || n > 63 {
				panic(m.bad(ins, "shift count must be a constant in 1..63"))
			}
			k := int(n)
			if len(a) == 2 {
				d := m.intOf(ins, m.src(ins, a[1], 8))
				var r *term.Term
				if ins.op == "SHRQ" {
					m.cf = term.Eq(term.Extract(d, k-1, k-1), term.Const(1, 1))
					r = term.Lshr(d, term.Const(64, n))
				} else {
					m.cf = term.Eq(term.Extract(d, 64-k, 64-k), term.Const(1, 1))
					r = term.Shl(d, term.Const(64, n))
				}
				m.setZF(r)
				m.setDst(ins, a[1], asmVal{t: r}, 8)
			} else {
				// double-register shift: bits come in from a[1]
				fill := m.intOf(ins, m.src(ins, a[1], 8))
				d := m.intOf(ins, m.src(ins, a[2], 8))
				var r *term.Term
				if ins.op == "SHRQ" {
					m.cf = term.Eq(term.Extract(d, k-1, k-1), term.Const(1, 1))
					r = term.Concat(term.Extract(fill, k-1, 0), term.Extract(d, 63, k))
				} else {
					m.cf = term.Eq(term.Extract(d, 64-k, 64-k), term.Const(1, 1))
					r = term.Concat(term.Extract(d, 63-k, 0), term.Extract(fill, 63, 64-k))
				}
				m.setZF(r)
				m.setDst(ins, a[2], asmVal{t: r}, 8)
			}
		case "MULQ":
			x := m.intOf(ins, m.src(ins, a[0], 8))
			ax := m.intOf(ins, m.src(ins, "AX", 8))
			if name := m.in.asmMulHi; name != "" && !m.in.concrete {
				// abstraction shared with the Go side of a harness: low word exact, high word an
				// uninterpreted function of (operand, AX) constrained by bounds that hold for the
				// real multiplication (hi <= a-1, hi <= b-1 (wrapping), b < 2^60 => hi <= a>>4)
				lo := term.Mul(ax, x)
				if m.in.asmMulLo != "" {
					lo = term.UF("ufw_"+m.in.asmMulLo, 64, x, ax)
				}
				hi := term.UF("ufw_"+name, 64, x, ax)
				one := term.Const(64, 1)
				m.in.addPC(term.Ule(hi, term.Sub(ax, one)))
				m.in.addPC(term.Ule(hi, term.Sub(x, one)))
				m.in.addPC(term.Ule(hi, term.Ite(term.Ult(ax, term.Const(64, 1<<60)), term.Lshr(x, term.Const(64, 4)), term.Const(64, ^uint64(0)))))
				m.regs["AX"] = asmVal{t: lo}
				m.regs["DX"] = asmVal{t: hi}
				m.cf = term.BNot(term.Eq(hi, term.Const(64, 0)))
				m.zf = nil
				break
			}
			p := term.Mul(term.Zext(ax, 128), term.Zext(x, 128))
			m.regs["AX"] = asmVal{t: term.Extract(p, 63, 0)}
			hi := term.Extract(p, 127, 64)
			m.regs["DX"] = asmVal{t: hi}
			m.cf = term.BNot(term.Eq(hi, term.Const(64, 0)))
			m.zf = nil
		case "IMULQ":
			if len(a) != 2 {
				panic(m.bad(ins, "only the two-operand form is supported"))
			}
			x := m.intOf(ins, m.src(ins, a[0], 8))
			y := m.intOf(ins, m.src(ins, a[1], 8))
			p := term.Mul(x, y)
			if m.in.asmMulLo != "" && !m.in.concrete {
				p = term.UF("ufw_"+m.in.asmMulLo, 64, x, y)
			}
			m.setDst(ins, a[1], asmVal{t: p}, 8)
			m.cf, m.zf = nil, nil
		default:
			panic(m.bad(ins, "unsupported instruction"))
		}
	}
}

func init() {
	// verifrt.AsmMulHiUF(name): MULQ yields an exact low word and a high word that is the
	// uninterpreted function ufw_<name>(operand, AX) (see the MULQ case above).
	RegisterIntrinsic(rt+"AsmMulHiUF", func(in *Interp, a []Value, _ *Frame) Value {
		in.asmMulHi = a[0].(Str).S
		return Tuple(nil)
	})
	// verifrt.AsmMulLoUF(name): additionally the low word of MULQ / the result of IMULQ is the
	// uninterpreted function ufw_<name>(operand, other operand).
	RegisterIntrinsic(rt+"AsmMulLoUF", func(in *Interp, a []Value, _ *Frame) Value {
		in.asmMulLo = a[0].(Str).S
		return Tuple(nil)
	})
}
