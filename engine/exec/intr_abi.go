package exec

import "go/types"

// internal/abi.NoEscape hides a pointer from escape analysis by a round trip through uintptr
// (x ^ 0); semantically the identity. Used by strings.Builder.copyCheck (strings.ToLower, ...).

func init() {
	RegisterIntrinsic("internal/abi.NoEscape", func(in *Interp, a []Value, _ *Frame) Value { return a[0] })
}

// internal/bytealg.MakeNoZero(n) returns a byte slice of length and capacity n without zeroing;
// modelled as make([]byte, n) (callers overwrite the contents before reading them).
func init() {
	RegisterIntrinsic("internal/bytealg.MakeNoZero", func(in *Interp, a []Value, _ *Frame) Value {
		n := in.toInt(a[0], "MakeNoZero length")
		if n < 0 || n > 1<<24 {
			in.goPanicRuntime("makeslice: len out of range")
		}
		s := in.newSlice(types.Typ[types.Byte], nil, n)
		s.Len = n
		return s
	})
}

// (*strings.Builder).String is unsafe.String(unsafe.SliceData(b.buf), len(b.buf)): the bytes
// accumulated so far as a string (strings are immutable values in the engine, so a copy is exact).
func init() {
	RegisterIntrinsic("(*strings.Builder).String", func(in *Interp, a []Value, _ *Frame) Value {
		st, ok := in.load(a[0].(Pointer)).(*Struct)
		if !ok || len(st.F) != 2 {
			panic(in.unsupported("strings.Builder layout"))
		}
		buf, ok := st.F[1].(Slice)
		if !ok {
			panic(in.unsupported("strings.Builder layout"))
		}
		return mkStr(in.sliceTerms(buf))
	})
}

// internal/stringslite.Clone (used by strconv's error constructors): strings are immutable values.
func init() {
	RegisterIntrinsic("internal/stringslite.Clone", func(in *Interp, a []Value, _ *Frame) Value { return a[0] })
}
