package exec

// internal/abi.NoEscape hides a pointer from escape analysis by a round trip through uintptr
// (x ^ 0); semantically the identity. Used by strings.Builder.copyCheck (strings.ToLower, ...).

func init() {
	RegisterIntrinsic("internal/abi.NoEscape", func(in *Interp, a []Value, _ *Frame) Value { return a[0] })
}

// internal/bytealg.MakeNoZero: registered in intr_bytealg.go (one registration per intrinsic).

// (*strings.Builder).String is unsafe.String(unsafe.SliceData(b.buf), len(b.buf)): the bytes
// accumulated so far as a string (strings are immutable values in the engine, so a copy is exact).
func init() {
	RegisterIntrinsic("(*strings.Builder).String", func(in *Interp, a []Value, _ *Frame) Value {
		st, ok := in.load(a[0].(Pointer)).(*Struct)
		if !ok || len(st.F) != 2 {
			panic(in.unsupported("strings.Builder layout"))
		}
		buf, ok := st.F[1].(Slice)
		if !ok {
			panic(in.unsupported("strings.Builder layout"))
		}
		return mkStr(in.sliceTerms(buf))
	})
}

// internal/stringslite.Clone (used by strconv's error constructors): registered in intr_strings.go.
