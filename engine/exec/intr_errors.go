package exec

// Engine-level model of errors.As (the real one goes through internal/reflectlite, which has no
// Go-level model here). Follows the documented algorithm: walk the Unwrap chain / tree depth
// first; at each error first test assignability of its dynamic type to the target element type,
// then an `As(any) bool` method if the error has one.

import (
	"go/types"

	"golang.org/x/tools/go/ssa"
	"verif/engine/term"
)

func init() {
	RegisterIntrinsic("errors.As", func(in *Interp, a []Value, caller *Frame) Value {
		err, _ := a[0].(Iface)
		tgt, _ := a[1].(Iface)
		if tgt.T == nil {
			in.goPanicRuntime("errors: target cannot be nil")
		}
		pt, ok := tgt.T.Underlying().(*types.Pointer)
		ptr, ok2 := tgt.V.(Pointer)
		if !ok || !ok2 || ptr.Obj == nil {
			in.goPanicRuntime("errors: target must be a non-nil pointer")
		}
		return term.Bool(in.errorsAs(err, tgt, ptr, pt.Elem(), caller, 0))
	})
}

func (in *Interp) methodOf(t types.Type, name string) *ssa.Function {
	sel := in.Prog.MethodSets.MethodSet(t).Lookup(nil, name)
	if sel == nil {
		return nil
	}
	return in.Prog.MethodValue(sel)
}

func (in *Interp) errorsAs(err Iface, tgt Iface, ptr Pointer, elem types.Type, caller *Frame, depth int) bool {
	for err.T != nil {
		if depth > 100 {
			panic(in.unsupported("errors.As: Unwrap chain too deep"))
		}
		depth++
		if it, isIface := elem.Underlying().(*types.Interface); isIface {
			if types.Implements(err.T, it) {
				in.store(ptr, err)
				return true
			}
		} else if types.Identical(err.T, elem) {
			in.store(ptr, err.V)
			return true
		}
		if m := in.methodOf(err.T, "As"); m != nil && m.Signature.Params().Len() == 1 && m.Signature.Results().Len() == 1 {
			r, isTerm := in.callFn(m, []Value{err.V, tgt}, nil, caller, nil).(*term.Term)
			if !isTerm {
				panic(in.unsupported("errors.As: As method result"))
			}
			b, conc := r.BoolVal()
			if !conc {
				panic(in.unsupported("errors.As: symbolic As method result"))
			}
			if b {
				return true
			}
		}
		m := in.methodOf(err.T, "Unwrap")
		if m == nil || m.Signature.Params().Len() != 0 || m.Signature.Results().Len() != 1 {
			return false
		}
		switch r := in.callFn(m, []Value{err.V}, nil, caller, nil).(type) {
		case Iface:
			err = r
		case Slice:
			for i := 0; i < r.Len; i++ {
				e, _ := in.load(in.sliceElemPtr(r, i)).(Iface)
				if e.T != nil && in.errorsAs(e, tgt, ptr, elem, caller, depth) {
					return true
				}
			}
			return false
		default:
			return false
		}
	}
	return false
}
