package exec

import (
	"fmt"
	"go/types"
	"strings"

	"golang.org/x/tools/go/ssa"
	"verif/engine/term"
)

// Value is one of: *term.Term (scalar), *Struct, *Array, Pointer, Slice, Str, Iface,
// *Closure, *MapV, *Chan, Tuple, *ssa.Builtin, Opaque.
type Value interface{}

type Struct struct{ F []Value }
type Array struct{ E []Value }

type PathElem struct {
	I     int
	Sym   *term.Term // non-nil: symbolic index (last element only)
	IsWin bool       // window [I, I+N) of the array (last element only)
	N     int
}

type Object struct {
	ID     int
	V      Value
	T      types.Type
	Shared bool // created during package initialisation
	Name   string
}

type Pointer struct {
	Obj  *Object
	Path []PathElem
	Fn   *Closure // pointer-to-func values are not supported; kept nil
}

type Slice struct {
	Obj  *Object
	Path []PathElem // path to the backing array inside Obj
	Off  int
	Len  int
	Cap  int
	Nil  bool
}

// Str is a string value: concrete (B==nil) or a sequence of byte terms.
type Str struct {
	S string
	B []*term.Term
}

type Iface struct {
	T types.Type // nil => nil interface
	V Value
}

type Closure struct {
	Fn  *ssa.Function
	Env []Value
}

type MapV struct {
	ID   int
	Keys []Value
	Vals []Value
	Nil  bool
}

type Chan struct {
	ID     int
	Cap    int
	Q      []Value
	Closed bool
	Nil    bool
}

type Tuple []Value

// Opaque stands for a value the engine does not model (floats etc.).
type Opaque struct{ What string }

// RangeIter is the iterator state of Range/Next.
type RangeIter struct {
	Str  *Str
	Map  *MapV
	Keys []Value
	Vals []Value
	Pos  int
}

func (s Str) Len() int {
	if s.B != nil {
		return len(s.B)
	}
	return len(s.S)
}

func (s Str) Bytes() []*term.Term {
	if s.B != nil {
		return s.B
	}
	out := make([]*term.Term, len(s.S))
	for i := 0; i < len(s.S); i++ {
		out[i] = term.Const(8, uint64(s.S[i]))
	}
	return out
}

func mkStr(b []*term.Term) Str {
	var sb strings.Builder
	for _, t := range b {
		v, ok := t.U64()
		if !ok {
			return Str{B: append([]*term.Term{}, b...)}
		}
		sb.WriteByte(byte(v))
	}
	return Str{S: sb.String()}
}

func (s Str) Concrete() (string, bool) {
	if s.B == nil {
		return s.S, true
	}
	return "", false
}

func isNilPtr(p Pointer) bool { return p.Obj == nil }

func pathEq(a, b []PathElem) bool {
	if len(a) != len(b) {
		return false
	}
	for i := range a {
		if a[i] != b[i] {
			return false
		}
	}
	return true
}

func copyVal(v Value) Value {
	switch x := v.(type) {
	case *Struct:
		n := &Struct{F: make([]Value, len(x.F))}
		for i, f := range x.F {
			n.F[i] = copyVal(f)
		}
		return n
	case *Array:
		n := &Array{E: make([]Value, len(x.E))}
		for i, f := range x.E {
			n.E[i] = copyVal(f)
		}
		return n
	}
	return v
}

func intWidth(t types.Type) (w int, signed bool, ok bool) {
	b, isB := t.Underlying().(*types.Basic)
	if !isB {
		return 0, false, false
	}
	switch b.Kind() {
	case types.Int8:
		return 8, true, true
	case types.Int16:
		return 16, true, true
	case types.Int32:
		return 32, true, true
	case types.Int64, types.Int:
		return 64, true, true
	case types.Uint8:
		return 8, false, true
	case types.Uint16:
		return 16, false, true
	case types.Uint32:
		return 32, false, true
	case types.Uint64, types.Uint, types.Uintptr:
		return 64, false, true
	case types.UntypedInt, types.UntypedRune:
		return 64, true, true
	}
	return 0, false, false
}

func isFloat(t types.Type) bool {
	b, ok := t.Underlying().(*types.Basic)
	return ok && b.Info()&(types.IsFloat|types.IsComplex) != 0
}

func (in *Interp) zero(t types.Type) Value {
	switch u := t.Underlying().(type) {
	case *types.Basic:
		if w, _, ok := intWidth(t); ok {
			return term.Const(w, 0)
		}
		switch {
		case u.Info()&types.IsBoolean != 0:
			return term.False
		case u.Info()&types.IsString != 0:
			return Str{}
		case u.Kind() == types.UnsafePointer:
			return Pointer{}
		case u.Kind() == types.UntypedNil:
			return Pointer{}
		}
		return Opaque{"float-zero"}
	case *types.Struct:
		s := &Struct{F: make([]Value, u.NumFields())}
		for i := 0; i < u.NumFields(); i++ {
			s.F[i] = in.zero(u.Field(i).Type())
		}
		return s
	case *types.Array:
		n := int(u.Len())
		a := &Array{E: make([]Value, n)}
		if n > 0 {
			z := in.zero(u.Elem())
			a.E[0] = z
			for i := 1; i < n; i++ {
				switch z.(type) {
				case *Struct, *Array:
					a.E[i] = copyVal(z)
				default:
					a.E[i] = z
				}
			}
		}
		return a
	case *types.Pointer:
		return Pointer{}
	case *types.Slice:
		return Slice{Nil: true}
	case *types.Map:
		return &MapV{Nil: true}
	case *types.Chan:
		return &Chan{Nil: true}
	case *types.Interface:
		return Iface{}
	case *types.Signature:
		return (*Closure)(nil)
	case *types.Tuple:
		tu := make(Tuple, u.Len())
		for i := range tu {
			tu[i] = in.zero(u.At(i).Type())
		}
		return tu
	}
	panic(in.unsupported("zero value of " + t.String()))
}

func (in *Interp) newObject(v Value, t types.Type) *Object {
	in.nextObj++
	o := &Object{ID: in.nextObj, V: v, T: t, Shared: in.initDepth > 0}
	return o
}

// navigate returns a pointer to the Value slot addressed by path (container and index).
func (in *Interp) slot(obj *Object, path []PathElem) (get func() Value, set func(Value)) {
	if len(path) == 0 {
		return func() Value { return obj.V }, func(v Value) { obj.V = v }
	}
	return in.slotIn(obj.V, path)
}

// slotIn navigates path (non-empty) inside the container value cur. A symbolic index in a
// non-final position (p[t][i] with symbolic t) addresses one slot per element of that array:
// loads are merged into if-then-else terms, stores are conditional stores into every element.
func (in *Interp) slotIn(cur Value, path []PathElem) (get func() Value, set func(Value)) {
	for i := 0; i < len(path)-1; i++ {
		if sym := path[i].Sym; sym != nil {
			arr, ok := cur.(*Array)
			if !ok || len(arr.E) == 0 {
				panic(in.unsupported(fmt.Sprintf("symbolic index into %T", cur)))
			}
			n := len(arr.E)
			gets := make([]func() Value, n)
			sets := make([]func(Value), n)
			for k := range arr.E {
				gets[k], sets[k] = in.slotIn(arr.E[k], path[i+1:])
			}
			is := func(k int) *term.Term { return term.Eq(sym, term.Const(sym.W, uint64(k))) }
			return func() Value {
					res := gets[n-1]()
					for k := n - 2; k >= 0; k-- {
						res = in.mergeIte(is(k), gets[k](), res)
					}
					return res
				}, func(v Value) {
					for k := 0; k < n; k++ {
						sets[k](in.mergeIte(is(k), v, gets[k]()))
					}
				}
		}
		cur = child(cur, path[i].I)
	}
	last := path[len(path)-1]
	switch c := cur.(type) {
	case *Struct:
		return func() Value { return c.F[last.I] }, func(v Value) { c.F[last.I] = v }
	case *Array:
		if last.IsWin {
			return func() Value { return &Array{E: append([]Value{}, c.E[last.I:last.I+last.N]...)} },
				func(v Value) { copy(c.E[last.I:last.I+last.N], v.(*Array).E) }
		}
		if last.Sym != nil {
			return func() Value { return in.symLoad(c, last.Sym) }, func(v Value) { in.symStore(c, last.Sym, v) }
		}
		if last.I < 0 || last.I >= len(c.E) {
			panic(fmt.Sprintf("engine: path index %d out of range %d", last.I, len(c.E)))
		}
		return func() Value { return c.E[last.I] }, func(v Value) { c.E[last.I] = v }
	}
	panic(fmt.Sprintf("engine: bad path into %T at %s stack %v", cur, in.Prog.Fset.Position(in.curPos), in.stack))
}

// mergeIte returns the value "c ? a : b" for scalars and (recursively) arrays/structs of scalars.
func (in *Interp) mergeIte(c *term.Term, a, b Value) Value {
	switch x := a.(type) {
	case *term.Term:
		if y, ok := b.(*term.Term); ok && x != nil && y != nil && x.W == y.W {
			if x == y {
				return x
			}
			return term.Ite(c, x, y)
		}
	case *Array:
		if y, ok := b.(*Array); ok && len(x.E) == len(y.E) {
			r := &Array{E: make([]Value, len(x.E))}
			for i := range x.E {
				r.E[i] = in.mergeIte(c, x.E[i], y.E[i])
			}
			return r
		}
	case *Struct:
		if y, ok := b.(*Struct); ok && len(x.F) == len(y.F) {
			r := &Struct{F: make([]Value, len(x.F))}
			for i := range x.F {
				r.F[i] = in.mergeIte(c, x.F[i], y.F[i])
			}
			return r
		}
	}
	panic(in.unsupported(fmt.Sprintf("symbolic index in a non-final position selecting non-scalar values (%T)", a)))
}

func child(v Value, i int) Value {
	switch c := v.(type) {
	case *Struct:
		return c.F[i]
	case *Array:
		return c.E[i]
	}
	panic(fmt.Sprintf("engine: child of %T", v))
}

func (in *Interp) symLoad(a *Array, idx *term.Term) Value {
	n := len(a.E)
	if n == 0 {
		panic(in.unsupported("symbolic index into empty array"))
	}
	first, ok := a.E[0].(*term.Term)
	if !ok {
		panic(in.unsupported("symbolic index into non-scalar array"))
	}
	// concrete table?
	allc := true
	for _, e := range a.E {
		t, ok := e.(*term.Term)
		if !ok {
			panic(in.unsupported("symbolic index into non-scalar array"))
		}
		if t.K != term.KConst || t.W > 64 || t.W == 0 {
			allc = false
		}
	}
	if allc && n >= 16 && first.W > 0 {
		iw := 1
		for (1 << uint(iw)) < n {
			iw++
		}
		vals := make([]uint64, n)
		for i, e := range a.E {
			vals[i], _ = e.(*term.Term).U64()
		}
		tab := term.NewTable("tab", iw, first.W, vals)
		return term.Select(tab, term.Extract(idx, iw-1, 0))
	}
	res := a.E[n-1].(*term.Term)
	for i := n - 2; i >= 0; i-- {
		res = term.Ite(term.Eq(idx, term.Const(idx.W, uint64(i))), a.E[i].(*term.Term), res)
	}
	return res
}

func (in *Interp) symStore(a *Array, idx *term.Term, v Value) {
	nv, ok := v.(*term.Term)
	if !ok {
		panic(in.unsupported("symbolic-index store of non-scalar"))
	}
	for i := range a.E {
		old := a.E[i].(*term.Term)
		a.E[i] = term.Ite(term.Eq(idx, term.Const(idx.W, uint64(i))), nv, old)
	}
}

func (in *Interp) load(p Pointer) Value {
	if p.Obj == nil {
		in.goPanicRuntime("invalid memory address or nil pointer dereference")
	}
	get, _ := in.slot(p.Obj, p.Path)
	return copyVal(get())
}

func (in *Interp) store(p Pointer, v Value) {
	if p.Obj == nil {
		in.goPanicRuntime("invalid memory address or nil pointer dereference")
	}
	if p.Obj.Shared && in.initDepth == 0 {
		if _, ok := in.journal[p.Obj]; !ok {
			in.journal[p.Obj] = copyVal(p.Obj.V)
		}
	}
	_, set := in.slot(p.Obj, p.Path)
	set(copyVal(v))
}

// sliceArray returns the backing *Array of a slice.
func (in *Interp) sliceArray(s Slice) *Array {
	if s.Obj == nil {
		return &Array{}
	}
	get, _ := in.slot(s.Obj, s.Path)
	a, ok := get().(*Array)
	if !ok {
		panic(fmt.Sprintf("engine: slice backing is %T", get()))
	}
	return a
}

func (in *Interp) sliceElemPtr(s Slice, i int) Pointer {
	p := make([]PathElem, len(s.Path)+1)
	copy(p, s.Path)
	p[len(s.Path)] = PathElem{I: s.Off + i}
	return Pointer{Obj: s.Obj, Path: p}
}

// sliceBytes returns the element terms of a scalar slice.
func (in *Interp) sliceTerms(s Slice) []*term.Term {
	if s.Len == 0 {
		return nil
	}
	a := in.sliceArray(s)
	out := make([]*term.Term, s.Len)
	for i := 0; i < s.Len; i++ {
		t, ok := a.E[s.Off+i].(*term.Term)
		if !ok {
			panic(in.unsupported("sliceTerms of non-scalar slice"))
		}
		out[i] = t
	}
	return out
}

func (in *Interp) touchSlice(s Slice) {
	if s.Obj != nil && s.Obj.Shared && in.initDepth == 0 {
		if _, ok := in.journal[s.Obj]; !ok {
			in.journal[s.Obj] = copyVal(s.Obj.V)
		}
	}
}

// newSlice allocates a fresh backing array.
func (in *Interp) newSlice(elem types.Type, vals []Value, cap_ int) Slice {
	if cap_ < len(vals) {
		cap_ = len(vals)
	}
	a := &Array{E: make([]Value, cap_)}
	copy(a.E, vals)
	if cap_ > len(vals) {
		z := in.zero(elem)
		for i := len(vals); i < cap_; i++ {
			a.E[i] = copyVal(z)
		}
	}
	obj := in.newObject(a, types.NewArray(elem, int64(cap_)))
	return Slice{Obj: obj, Len: len(vals), Cap: cap_}
}

func (in *Interp) byteSlice(b []*term.Term) Slice {
	vals := make([]Value, len(b))
	for i, t := range b {
		vals[i] = t
	}
	return in.newSlice(types.Typ[types.Uint8], vals, len(b))
}

func describe(v Value) string {
	switch x := v.(type) {
	case *term.Term:
		return x.String()
	case Str:
		if x.B == nil {
			return fmt.Sprintf("%q", x.S)
		}
		return fmt.Sprintf("symstr[%d]", len(x.B))
	case Iface:
		if x.T == nil {
			return "nil"
		}
		return fmt.Sprintf("%s(%s)", x.T, describe(x.V))
	case Pointer:
		if x.Obj == nil {
			return "nil"
		}
		return fmt.Sprintf("&obj%d%v", x.Obj.ID, x.Path)
	case *Struct:
		s := "{"
		for i, f := range x.F {
			if i > 0 {
				s += ","
			}
			if i > 6 {
				s += "..."
				break
			}
			s += describe(f)
		}
		return s + "}"
	}
	return fmt.Sprintf("%T", v)
}
