package exec

import (
	"fmt"
	"math/big"
	"go/types"
	"os"
	"strings"
	"unicode/utf8"

	"golang.org/x/tools/go/ssa"
	"verif/engine/smt"
	"verif/engine/term"
)

func (in *Interp) builtin(b *ssa.Builtin, args []Value, fr *Frame) Value {
	switch b.Name() {
	case "len":
		switch x := args[0].(type) {
		case Slice:
			return term.Const(64, uint64(x.Len))
		case Str:
			return term.Const(64, uint64(x.Len()))
		case *MapV:
			return term.Const(64, uint64(len(x.Keys)))
		case *Chan:
			return term.Const(64, uint64(len(x.Q)))
		case Pointer:
			// *array
			if x.Obj == nil {
				in.goPanicRuntime("nil pointer dereference in len")
			}
			if k := len(x.Path); k > 0 && x.Path[k-1].IsWin {
				return term.Const(64, uint64(x.Path[k-1].N))
			}
			get, _ := in.slot(x.Obj, x.Path)
			return term.Const(64, uint64(len(get().(*Array).E)))
		case *Array:
			return term.Const(64, uint64(len(x.E)))
		}
	case "cap":
		switch x := args[0].(type) {
		case Slice:
			return term.Const(64, uint64(x.Cap))
		case *Chan:
			return term.Const(64, uint64(x.Cap))
		case *Array:
			return term.Const(64, uint64(len(x.E)))
		case Pointer:
			get, _ := in.slot(x.Obj, x.Path)
			return term.Const(64, uint64(len(get().(*Array).E)))
		}
	case "append":
		s := args[0].(Slice)
		var add []Value
		var elemT types.Type
		if st, ok := b.Type().(*types.Signature); ok {
			if sl, ok := st.Params().At(0).Type().Underlying().(*types.Slice); ok {
				elemT = sl.Elem()
			}
		}
		switch y := args[1].(type) {
		case Slice:
			if y.Len > 0 {
				a := in.sliceArray(y)
				for i := 0; i < y.Len; i++ {
					add = append(add, copyVal(a.E[y.Off+i]))
				}
			}
		case Str:
			for _, t := range y.Bytes() {
				add = append(add, t)
			}
		}
		if len(add) == 0 {
			return s
		}
		if s.Len+len(add) <= s.Cap {
			in.touchSlice(s)
			a := in.sliceArray(s)
			copy(a.E[s.Off+s.Len:], add)
			s.Len += len(add)
			return s
		}
		// grow: Go's growth policy is implementation-defined; use double-or-fit
		ncap := s.Cap * 2
		if ncap < s.Len+len(add) {
			ncap = s.Len + len(add)
		}
		vals := make([]Value, 0, s.Len+len(add))
		if s.Len > 0 {
			a := in.sliceArray(s)
			for i := 0; i < s.Len; i++ {
				vals = append(vals, copyVal(a.E[s.Off+i]))
			}
		}
		vals = append(vals, add...)
		if elemT == nil {
			elemT = types.Typ[types.Uint8]
			if s.Obj != nil {
				if at, ok := s.Obj.T.Underlying().(*types.Array); ok && len(s.Path) == 0 {
					elemT = at.Elem()
				}
			}
		}
		return in.newSlice(elemT, vals, ncap)
	case "copy":
		d := args[0].(Slice)
		var src []Value
		switch y := args[1].(type) {
		case Slice:
			if y.Len > 0 {
				a := in.sliceArray(y)
				src = append(src, a.E[y.Off:y.Off+y.Len]...)
			}
		case Str:
			for _, t := range y.Bytes() {
				src = append(src, t)
			}
		}
		n := len(src)
		if d.Len < n {
			n = d.Len
		}
		if n > 0 {
			in.touchSlice(d)
			a := in.sliceArray(d)
			tmp := make([]Value, n)
			for i := 0; i < n; i++ {
				tmp[i] = copyVal(src[i])
			}
			copy(a.E[d.Off:d.Off+n], tmp)
		}
		return term.Const(64, uint64(n))
	case "panic":
		in.goPanic(args[0])
	case "recover":
		if fr != nil && fr.deferOf != nil && fr.deferOf.panicking != nil {
			p := fr.deferOf.panicking
			fr.deferOf.panicking = nil
			if iv, ok := p.V.(Iface); ok {
				return iv
			}
			return Iface{T: types.Typ[types.String], V: p.V}
		}
		return Iface{}
	case "delete":
		m := args[0].(*MapV)
		if m.Nil {
			return nil
		}
		if i := in.mapFind(m, args[1]); i >= 0 {
			in.mapJournal(m)
			m.Keys = append(m.Keys[:i:i], m.Keys[i+1:]...)
			m.Vals = append(m.Vals[:i:i], m.Vals[i+1:]...)
		}
		return nil
	case "close":
		c := args[0].(*Chan)
		if c.Nil {
			in.goPanicRuntime("close of nil channel")
		}
		if c.Closed {
			in.goPanicRuntime("close of closed channel")
		}
		c.Closed = true
		return nil
	case "min", "max":
		acc := args[0].(*term.Term)
		sgn := true
		if sig, ok := b.Type().(*types.Signature); ok && sig.Params().Len() > 0 {
			_, sgn, _ = intWidth(sig.Params().At(0).Type())
		}
		for _, a := range args[1:] {
			y := a.(*term.Term)
			var lt *term.Term
			if sgn {
				lt = term.Slt(y, acc)
			} else {
				lt = term.Ult(y, acc)
			}
			if b.Name() == "max" {
				lt = term.BNot(term.BOr(lt, term.Eq(y, acc)))
			}
			acc = term.Ite(lt, y, acc)
		}
		return acc
	case "clear":
		switch x := args[0].(type) {
		case *MapV:
			in.mapJournal(x)
			x.Keys, x.Vals = nil, nil
		case Slice:
			if x.Len > 0 {
				in.touchSlice(x)
				a := in.sliceArray(x)
				et := x.Obj.T
				_ = et
				for i := 0; i < x.Len; i++ {
					a.E[x.Off+i] = zeroLike(a.E[x.Off+i])
				}
			}
		}
		return nil
	case "print", "println":
		return nil
	case "ssa:wrapnilchk":
		p := args[0].(Pointer)
		if p.Obj == nil {
			in.goPanicRuntime("value method called using nil pointer")
		}
		return p
	}
	panic(in.unsupported("builtin " + b.Name() + fmt.Sprintf(" on %T", args[0])))
}

func zeroLike(v Value) Value {
	switch x := v.(type) {
	case *term.Term:
		if x.W == 0 {
			return term.False
		}
		return term.Const(x.W, 0)
	case *Struct:
		n := &Struct{F: make([]Value, len(x.F))}
		for i := range x.F {
			n.F[i] = zeroLike(x.F[i])
		}
		return n
	case *Array:
		n := &Array{E: make([]Value, len(x.E))}
		for i := range x.E {
			n.E[i] = zeroLike(x.E[i])
		}
		return n
	case Str:
		return Str{}
	case Pointer:
		return Pointer{}
	case Slice:
		return Slice{Nil: true}
	case Iface:
		return Iface{}
	case *Closure:
		return (*Closure)(nil)
	case *MapV:
		return &MapV{Nil: true}
	case *Chan:
		return &Chan{Nil: true}
	}
	return v
}

// ---------- maps ----------

func (in *Interp) mapJournal(m *MapV) {}

func (in *Interp) mapFind(m *MapV, k Value) int {
	for i, kk := range m.Keys {
		eq := in.valueEq(kk, k)
		if in.decide(eq, nil, nil) {
			return i
		}
	}
	return -1
}

func (in *Interp) mapSet(m *MapV, k, v Value) {
	if i := in.mapFind(m, k); i >= 0 {
		m.Vals[i] = v
		return
	}
	m.Keys = append(m.Keys, copyVal(k))
	m.Vals = append(m.Vals, v)
}

func (in *Interp) lookup(fr *Frame, x *ssa.Lookup) Value {
	base := in.get(fr, x.X)
	switch b := base.(type) {
	case Str:
		idx := in.get(fr, x.Index).(*term.Term)
		_, sgn, _ := intWidth(x.Index.Type())
		i, sym := in.boundsCheck(idx, sgn, b.Len(), fr, x)
		if sym != nil {
			bs := b.Bytes()
			arr := &Array{E: make([]Value, len(bs))}
			for k, t := range bs {
				arr.E[k] = t
			}
			return in.symLoad(arr, sym)
		}
		return b.Bytes()[i]
	case *MapV:
		k := in.get(fr, x.Index)
		vt := x.X.Type().Underlying().(*types.Map).Elem()
		i := -1
		if !b.Nil {
			i = in.mapFind(b, k)
		}
		var v Value
		if i >= 0 {
			v = copyVal(b.Vals[i])
		} else {
			v = in.zero(vt)
		}
		if x.CommaOk {
			return Tuple{v, term.Bool(i >= 0)}
		}
		return v
	}
	panic(in.unsupported(fmt.Sprintf("Lookup on %T", base)))
}

func (in *Interp) rangeInit(v Value) Value {
	switch x := v.(type) {
	case Str:
		return &RangeIter{Str: &x}
	case *MapV:
		it := &RangeIter{Map: x}
		it.Keys = append(it.Keys, x.Keys...)
		it.Vals = append(it.Vals, x.Vals...)
		return it
	}
	panic(in.unsupported(fmt.Sprintf("range over %T", v)))
}

func (in *Interp) rangeNext(x *ssa.Next, it *RangeIter) Value {
	if x.IsString && it.Str.B != nil {
		b := it.Str.B
		if it.Pos >= len(b) {
			return Tuple{term.False, term.Const(64, 0), term.Const(32, 0)}
		}
		r, n := in.decodeRuneSym(b[it.Pos:])
		p := it.Pos
		it.Pos += n
		return Tuple{term.True, term.Const(64, uint64(p)), r}
	}
	if x.IsString {
		s := it.Str.S
		if it.Pos >= len(s) {
			return Tuple{term.False, term.Const(64, 0), term.Const(32, 0)}
		}
		r, n := utf8.DecodeRuneInString(s[it.Pos:])
		p := it.Pos
		it.Pos += n
		return Tuple{term.True, term.Const(64, uint64(p)), term.Const(32, uint64(r))}
	}
	tt := x.Type().(*types.Tuple)
	for it.Pos < len(it.Keys) {
		k, v := it.Keys[it.Pos], it.Vals[it.Pos]
		it.Pos++
		// skip entries deleted during iteration
		live := false
		for _, kk := range it.Map.Keys {
			if b, ok := in.valueEq(kk, k).BoolVal(); ok && b {
				live = true
				break
			}
		}
		if !live {
			continue
		}
		return Tuple{term.True, k, copyVal(v)}
	}
	return Tuple{term.False, in.zeroOrNil(tt.At(1).Type()), in.zeroOrNil(tt.At(2).Type())}
}

func (in *Interp) zeroOrNil(t types.Type) Value {
	if b, ok := t.(*types.Basic); ok && b.Kind() == types.Invalid {
		return nil
	}
	return in.zero(t)
}

// ---------- channels (single logical thread) ----------

// sendReady: a send can complete now (buffer space, or — unbuffered — a receiver is parked).
func (c *Chan) sendReady() bool {
	return c.Closed || len(c.Q) < c.Cap || (c.Cap == 0 && c.RecvWaiting > len(c.Q))
}

func (in *Interp) chanSend(c *Chan, v Value) {
	in.schedPoint("chan send")
	where := in.Prog.Fset.Position(in.curPos).String()
	if c.Nil {
		in.block(func() bool { return false }, "send on nil channel at "+where)
	}
	in.block(c.sendReady, "send on full channel at "+where)
	if c.Closed {
		in.goPanicRuntime("send on closed channel")
	}
	c.Q = append(c.Q, copyVal(v))
}

func (in *Interp) chanRecv(c *Chan) (Value, bool) {
	in.schedPoint("chan receive")
	where := in.Prog.Fset.Position(in.curPos).String()
	if c.Nil {
		in.block(func() bool { return false }, "receive on nil channel at "+where)
	}
	if len(c.Q) == 0 && !c.Closed {
		c.RecvWaiting++
		defer func() { c.RecvWaiting-- }()
		in.block(func() bool { return len(c.Q) > 0 || c.Closed }, "receive on empty channel at "+where)
	}
	if len(c.Q) > 0 {
		v := c.Q[0]
		c.Q = c.Q[1:]
		return v, true
	}
	return nil, false
}

func lockNote(in *Interp) string {
	if len(in.locksHeld()) == 0 {
		return ""
	}
	return " holding " + strings.Join(in.locksHeld(), ",")
}

func (in *Interp) selectOp(fr *Frame, x *ssa.Select) Value {
	// result tuple: (index int, recvOk bool, r0 T0, r1 T1, ...)
	nrecv := 0
	for _, st := range x.States {
		if st.Dir == types.RecvOnly {
			nrecv++
		}
	}
	res := make(Tuple, 2+nrecv)
	res[0] = term.Const(64, 0)
	res[1] = term.False
	ri := 0
	recvIdx := make([]int, len(x.States))
	for i, st := range x.States {
		if st.Dir == types.RecvOnly {
			recvIdx[i] = 2 + ri
			res[2+ri] = in.zero(st.Chan.Type().Underlying().(*types.Chan).Elem())
			ri++
		}
	}
	in.schedPoint("select")
	chans := make([]*Chan, len(x.States))
	for i, st := range x.States {
		chans[i] = in.get(fr, st.Chan).(*Chan)
	}
	try := func() bool {
		for i, st := range x.States {
			c := chans[i]
			if c.Nil {
				continue
			}
			if st.Dir == types.RecvOnly {
				if len(c.Q) > 0 || c.Closed {
					var v Value
					ok := false
					if len(c.Q) > 0 {
						v, ok = c.Q[0], true
						c.Q = c.Q[1:]
					}
					if v != nil {
						res[recvIdx[i]] = v
					}
					res[0] = term.Const(64, uint64(i))
					res[1] = term.Bool(ok)
					return true
				}
			} else {
				if c.Closed {
					in.goPanicRuntime("send on closed channel")
				}
				if c.sendReady() {
					c.Q = append(c.Q, copyVal(in.get(fr, st.Send)))
					res[0] = term.Const(64, uint64(i))
					return true
				}
			}
		}
		return false
	}
	if try() {
		return res
	}
	if !x.Blocking {
		res[0] = term.Const(64, ^uint64(0))
		return res
	}
	anyReady := func() bool {
		for i, st := range x.States {
			c := chans[i]
			if c.Nil {
				continue
			}
			if st.Dir == types.RecvOnly {
				if len(c.Q) > 0 || c.Closed {
					return true
				}
			} else if c.sendReady() {
				return true
			}
		}
		return false
	}
	for {
		// parked receivers make unbuffered senders ready
		for i, st := range x.States {
			if st.Dir == types.RecvOnly && !chans[i].Nil {
				chans[i].RecvWaiting++
			}
		}
		func() {
			defer func() {
				for i, st := range x.States {
					if st.Dir == types.RecvOnly && !chans[i].Nil {
						chans[i].RecvWaiting--
					}
				}
			}()
			in.block(anyReady, "select with no ready case at "+in.Prog.Fset.Position(in.curPos).String())
		}()
		if try() {
			return res
		}
	}
}

// ---------- intrinsics ----------

type intrinsic func(in *Interp, args []Value, caller *Frame) Value

// intrinsics maps qualified function names to engine-level models. Other files add to it from
// their own init functions (RegisterIntrinsic).
var intrinsics = map[string]intrinsic{}

// RegisterIntrinsic adds (or replaces) an engine-level model of a function.
func RegisterIntrinsic(name string, h intrinsic) { intrinsics[name] = h }
var goHandlers = map[string]func(in *Interp, fr *Frame, g *ssa.Go){}

const rt = "golang.org/x/crypto/internal/verifrt."

func init() {
	base := map[string]intrinsic{
		rt + "Symbolic": func(in *Interp, a []Value, _ *Frame) Value { return term.Bool(!in.concrete) },
		rt + "U8":       func(in *Interp, a []Value, _ *Frame) Value { return in.newSym(8) },
		rt + "U16":      func(in *Interp, a []Value, _ *Frame) Value { return in.newSym(16) },
		rt + "U32":      func(in *Interp, a []Value, _ *Frame) Value { return in.newSym(32) },
		rt + "I32":      func(in *Interp, a []Value, _ *Frame) Value { return in.newSym(32) },
		rt + "U64":      func(in *Interp, a []Value, _ *Frame) Value { return in.newSym(64) },
		rt + "Int":      func(in *Interp, a []Value, _ *Frame) Value { return in.newSym(64) },
		rt + "I64":      func(in *Interp, a []Value, _ *Frame) Value { return in.newSym(64) },
		rt + "Bool": func(in *Interp, a []Value, _ *Frame) Value {
			if in.concrete {
				return term.Bool(in.splitmix()&1 == 1)
			}
			return in.newSym(0)
		},
		rt + "Bytes": func(in *Interp, a []Value, _ *Frame) Value {
			n := in.toInt(a[0], "Bytes(n)")
			b := make([]*term.Term, n)
			for i := range b {
				b[i] = in.newSym(8)
			}
			return in.byteSlice(b)
		},
		rt + "String": func(in *Interp, a []Value, _ *Frame) Value {
			n := in.toInt(a[0], "String(n)")
			b := make([]*term.Term, n)
			for i := range b {
				b[i] = in.newSym(8)
			}
			return mkStr(b)
		},
		rt + "Fill": func(in *Interp, a []Value, _ *Frame) Value {
			s := a[0].(Slice)
			if s.Len > 0 {
				in.touchSlice(s)
				arr := in.sliceArray(s)
				for i := 0; i < s.Len; i++ {
					arr.E[s.Off+i] = in.newSym(8)
				}
			}
			return Tuple(nil)
		},
		rt + "Choose": func(in *Interp, a []Value, _ *Frame) Value {
			lo := in.toInt(a[0], "Choose lo")
			hi := in.toInt(a[1], "Choose hi")
			if in.concrete {
				return term.Const(64, uint64(lo+int(in.splitmix()%uint64(hi-lo+1))))
			}
			x := in.newSym(64)
			in.addPC(term.Sle(term.Const(64, uint64(lo)), x))
			in.addPC(term.Sle(x, term.Const(64, uint64(hi))))
			v := in.concretize(x, "Choose")
			return term.Const(64, v)
		},
		rt + "Concretize": func(in *Interp, a []Value, _ *Frame) Value {
			t := a[0].(*term.Term)
			return term.Const(64, in.concretize(t, "Concretize"))
		},
		rt + "Assume": func(in *Interp, a []Value, _ *Frame) Value {
			c := a[0].(*term.Term)
			if b, ok := c.BoolVal(); ok {
				if !b {
					panic(pathEnd{endAssume, "Assume(false) at " + in.Prog.Fset.Position(in.curPos).String()})
				}
				return Tuple(nil)
			}
			in.addPC(c)
			in.assumes++
			return Tuple(nil)
		},
		rt + "Assert": func(in *Interp, a []Value, _ *Frame) Value {
			in.assert(a[0].(*term.Term), a[1].(Str).S)
			return Tuple(nil)
		},
		rt + "Reach": func(in *Interp, a []Value, _ *Frame) Value {
			in.Reached[a[0].(Str).S] = true
			return Tuple(nil)
		},
		rt + "MakeLimit": func(in *Interp, a []Value, _ *Frame) Value {
			in.makeLimit = in.toInt(a[0], "MakeLimit")
			return Tuple(nil)
		},
		rt + "Unwind": func(in *Interp, a []Value, _ *Frame) Value {
			in.unwindN = in.toInt(a[0], "Unwind")
			return Tuple(nil)
		},
		rt + "Observe": func(in *Interp, a []Value, _ *Frame) Value {
			if in.concrete {
				ts := in.sliceTerms(a[1].(Slice))
				var sb strings.Builder
				for _, t := range ts {
					v, _ := t.U64()
					fmt.Fprintf(&sb, "%02x", v)
				}
				in.Events = append(in.Events, "observe "+a[0].(Str).S+" "+sb.String())
			}
			return Tuple(nil)
		},
		rt + "ObserveU64": func(in *Interp, a []Value, _ *Frame) Value {
			if in.concrete {
				v, _ := a[1].(*term.Term).U64()
				in.Events = append(in.Events, fmt.Sprintf("observe %s %x", a[0].(Str).S, v))
			}
			return Tuple(nil)
		},
		rt + "UFBytes": func(in *Interp, a []Value, _ *Frame) Value {
			name := a[0].(Str).S
			n := in.toInt(a[1], "UFBytes outLen")
			va := a[2].(Slice)
			var parts []*term.Term
			if va.Len > 0 {
				arr := in.sliceArray(va)
				for i := 0; i < va.Len; i++ {
					s := arr.E[va.Off+i].(Slice)
					parts = append(parts, in.sliceTerms(s)...)
					// length separator is implicit in the function name (arity by widths)
					name += fmt.Sprintf("_%d", s.Len)
				}
			}
			if in.concrete {
				return in.byteSlice(in.oracleConcrete(a[0].(Str).S, n, va))
			}
			var out *term.Term
			if len(parts) == 0 {
				out = term.UF("uf_"+name, 8*n)
			} else {
				out = term.UF("uf_"+name, 8*n, term.Concat(parts...))
			}
			b := make([]*term.Term, n)
			for i := 0; i < n; i++ {
				hi := 8*n - 1 - 8*i
				b[i] = term.Extract(out, hi, hi-7)
			}
			return in.byteSlice(b)
		},
		rt + "UF64": func(in *Interp, a []Value, _ *Frame) Value { return in.ufWords(a, 64) },
		rt + "UF32": func(in *Interp, a []Value, _ *Frame) Value { return in.ufWords(a, 32) },

		"(*sync.Mutex).Lock":      func(in *Interp, a []Value, _ *Frame) Value { return in.lockOp(a[0], 1) },
		"(*sync.Mutex).Unlock":    func(in *Interp, a []Value, _ *Frame) Value { return in.lockOp(a[0], -1) },
		"(*sync.Mutex).TryLock":   func(in *Interp, a []Value, _ *Frame) Value { in.lockOp(a[0], 1); return term.True },
		"(*sync.RWMutex).Lock":    func(in *Interp, a []Value, _ *Frame) Value { return in.lockOp(a[0], 1) },
		"(*sync.RWMutex).Unlock":  func(in *Interp, a []Value, _ *Frame) Value { return in.lockOp(a[0], -1) },
		"(*sync.RWMutex).RLock":   func(in *Interp, a []Value, _ *Frame) Value { return in.lockOp(a[0], 1) },
		"(*sync.RWMutex).RUnlock": func(in *Interp, a []Value, _ *Frame) Value { return in.lockOp(a[0], -1) },
		"(*sync.Once).Do": func(in *Interp, a []Value, fr *Frame) Value {
			p := a[0].(Pointer)
			key := fmt.Sprintf("once:%d%v", p.Obj.ID, p.Path)
			if in.onceDone[key] {
				return Tuple(nil)
			}
			in.onceDone[key] = true
			in.call(a[1], nil, fr)
			return Tuple(nil)
		},
		"(*sync.Cond).Broadcast": func(in *Interp, a []Value, _ *Frame) Value {
			in.condEvents = append(in.condEvents, "broadcast")
			return Tuple(nil)
		},
		"(*sync.Cond).Signal": func(in *Interp, a []Value, _ *Frame) Value {
			in.condEvents = append(in.condEvents, "signal")
			return Tuple(nil)
		},
		"sync.NewCond": func(in *Interp, a []Value, _ *Frame) Value {
			return Pointer{Obj: in.newObject(&Struct{F: []Value{a[0]}}, nil)}
		},
		"(*sync.WaitGroup).Add":  func(in *Interp, a []Value, _ *Frame) Value { return Tuple(nil) },
		"(*sync.WaitGroup).Done": func(in *Interp, a []Value, _ *Frame) Value { return Tuple(nil) },
		"(*sync.WaitGroup).Wait": func(in *Interp, a []Value, _ *Frame) Value { return Tuple(nil) },
		"runtime.KeepAlive":      func(in *Interp, a []Value, _ *Frame) Value { return Tuple(nil) },
		"runtime.SetFinalizer":   func(in *Interp, a []Value, _ *Frame) Value { return Tuple(nil) },
		"runtime.Gosched":        func(in *Interp, a []Value, _ *Frame) Value { return Tuple(nil) },
		"fmt.Errorf": func(in *Interp, a []Value, _ *Frame) Value {
			return in.mkError("fmt.Errorf:" + strDesc(a[0]))
		},
		"fmt.Sprintf": func(in *Interp, a []Value, _ *Frame) Value { return in.sprintf(a) },
		"fmt.Sprint":  func(in *Interp, a []Value, _ *Frame) Value { return Str{S: "<fmt.Sprint>"} },
		"fmt.Fprintf": func(in *Interp, a []Value, _ *Frame) Value {
			return Tuple{term.Const(64, 0), Iface{}}
		},
		"fmt.Printf":  func(in *Interp, a []Value, _ *Frame) Value { return Tuple{term.Const(64, 0), Iface{}} },
		"fmt.Println": func(in *Interp, a []Value, _ *Frame) Value { return Tuple{term.Const(64, 0), Iface{}} },
		"log.Printf":  func(in *Interp, a []Value, _ *Frame) Value { return Tuple(nil) },
		"log.Print":   func(in *Interp, a []Value, _ *Frame) Value { return Tuple(nil) },
		"log.Println": func(in *Interp, a []Value, _ *Frame) Value { return Tuple(nil) },
		"math/bits.Mul64": func(in *Interp, a []Value, _ *Frame) Value {
			x, y := a[0].(*term.Term), a[1].(*term.Term)
			p := term.Mul(term.Zext(x, 128), term.Zext(y, 128))
			return Tuple{term.Extract(p, 127, 64), term.Extract(p, 63, 0)}
		},
		"math/bits.Mul32": func(in *Interp, a []Value, _ *Frame) Value {
			x, y := a[0].(*term.Term), a[1].(*term.Term)
			p := term.Mul(term.Zext(x, 64), term.Zext(y, 64))
			return Tuple{term.Extract(p, 63, 32), term.Extract(p, 31, 0)}
		},
		"math/bits.Add64": func(in *Interp, a []Value, _ *Frame) Value {
			x, y, c := a[0].(*term.Term), a[1].(*term.Term), a[2].(*term.Term)
			s := term.AddN(term.Zext(x, 65), term.Zext(y, 65), term.Zext(term.Extract(c, 0, 0), 65))
			return Tuple{term.Extract(s, 63, 0), term.Zext(term.Extract(s, 64, 64), 64)}
		},
		"math/bits.Sub64": func(in *Interp, a []Value, _ *Frame) Value {
			x, y, c := a[0].(*term.Term), a[1].(*term.Term), a[2].(*term.Term)
			s := term.Sub(term.Sub(term.Zext(x, 65), term.Zext(y, 65)), term.Zext(term.Extract(c, 0, 0), 65))
			return Tuple{term.Extract(s, 63, 0), term.Zext(term.Extract(s, 64, 64), 64)}
		},
		"internal/bytealg.IndexByte":       indexByte,
		"internal/bytealg.IndexByteString": indexByte,
		"internal/bytealg.Equal": func(in *Interp, a []Value, _ *Frame) Value {
			return strEq(mkStr(in.sliceTerms(a[0].(Slice))), mkStr(in.sliceTerms(a[1].(Slice))))
		},
		"internal/bytealg.Compare": func(in *Interp, a []Value, _ *Frame) Value {
			x, y := mkStr(in.sliceTerms(a[0].(Slice))), mkStr(in.sliceTerms(a[1].(Slice)))
			return term.Ite(strEq(x, y), term.Const(64, 0), term.Ite(strLess(x, y), term.Const(64, ^uint64(0)), term.Const(64, 1)))
		},
		"internal/bytealg.Count": func(in *Interp, a []Value, _ *Frame) Value {
			ts := in.sliceTerms(a[0].(Slice))
			c := a[1].(*term.Term)
			acc := term.Const(64, 0)
			for _, t := range ts {
				acc = term.Add(acc, term.Ite(term.Eq(t, c), term.Const(64, 1), term.Const(64, 0)))
			}
			return acc
		},
		"internal/bytealg.CountString": func(in *Interp, a []Value, _ *Frame) Value {
			ts := a[0].(Str).Bytes()
			c := a[1].(*term.Term)
			acc := term.Const(64, 0)
			for _, t := range ts {
				acc = term.Add(acc, term.Ite(term.Eq(t, c), term.Const(64, 1), term.Const(64, 0)))
			}
			return acc
		},
		"crypto/internal/fips140/subtle.XORBytes": xorBytes,
		"crypto/subtle.XORBytes":                  xorBytes,
		"crypto/internal/fips140/subtle.ConstantTimeCompare": func(in *Interp, a []Value, _ *Frame) Value {
			return ctCompare(in, a)
		},
		"crypto/subtle.ConstantTimeCompare": func(in *Interp, a []Value, _ *Frame) Value { return ctCompare(in, a) },
		"crypto/internal/fips140deps/godebug.New": func(in *Interp, a []Value, _ *Frame) Value {
			return Pointer{}
		},
		"internal/godebug.New": func(in *Interp, a []Value, _ *Frame) Value {
			return Pointer{Obj: in.newObject(&Struct{F: []Value{a[0]}}, nil)}
		},
		"(*internal/godebug.Setting).Value":        func(in *Interp, a []Value, _ *Frame) Value { return Str{} },
		"(*internal/godebug.Setting).IncNonDefault": func(in *Interp, a []Value, _ *Frame) Value { return Tuple(nil) },
		"strings.Clone": func(in *Interp, a []Value, _ *Frame) Value { return a[0] },
		"os.Getenv":     func(in *Interp, a []Value, _ *Frame) Value { return Str{} },
		"unique.Make":   nil,
		"errors.Is":     nil,
	}
	delete(base, "unique.Make")
	delete(base, "errors.Is")
	for k, v := range base {
		intrinsics[k] = v
	}
}

func strDesc(v Value) string {
	if s, ok := v.(Str); ok && s.B == nil {
		return s.S
	}
	return "?"
}

func indexByte(in *Interp, a []Value, _ *Frame) Value {
	var ts []*term.Term
	switch x := a[0].(type) {
	case Slice:
		ts = in.sliceTerms(x)
	case Str:
		ts = x.Bytes()
	}
	c := a[1].(*term.Term)
	res := term.Const(64, ^uint64(0))
	for i := len(ts) - 1; i >= 0; i-- {
		res = term.Ite(term.Eq(ts[i], c), term.Const(64, uint64(i)), res)
	}
	return res
}

func xorBytes(in *Interp, a []Value, _ *Frame) Value {
	d, x, y := a[0].(Slice), a[1].(Slice), a[2].(Slice)
	n := x.Len
	if y.Len < n {
		n = y.Len
	}
	if n == 0 {
		return term.Const(64, 0)
	}
	if d.Len < n {
		in.goPanic(Iface{T: types.Typ[types.String], V: Str{S: "subtle.XORBytes: dst too short"}})
	}
	xt, yt := in.sliceTerms(x), in.sliceTerms(y)
	in.touchSlice(d)
	arr := in.sliceArray(d)
	for i := 0; i < n; i++ {
		arr.E[d.Off+i] = term.Xor(xt[i], yt[i])
	}
	return term.Const(64, uint64(n))
}

func ctCompare(in *Interp, a []Value) Value {
	x, y := a[0].(Slice), a[1].(Slice)
	if x.Len != y.Len {
		return term.Const(64, 0)
	}
	eq := strEq(mkStr(in.sliceTerms(x)), mkStr(in.sliceTerms(y)))
	return term.Ite(eq, term.Const(64, 1), term.Const(64, 0))
}

func (in *Interp) ufWords(a []Value, w int) Value {
	name := a[0].(Str).S
	va := a[1].(Slice)
	var args []*term.Term
	if va.Len > 0 {
		args = in.sliceTerms(va)
	}
	if in.concrete {
		// replicate verifrt.oracle natively inside the engine
		b := make([]byte, 0, len(args)*w/8)
		for _, t := range args {
			v, _ := t.U64()
			for k := 0; k < w/8; k++ {
				b = append(b, byte(v>>(8*uint(k))))
			}
		}
		out := nativeOracle(name, w/8, [][]byte{b})
		var v uint64
		for k := w/8 - 1; k >= 0; k-- {
			v = v<<8 | uint64(out[k])
		}
		return term.Const(w, v)
	}
	return term.UF("ufw_"+name, w, args...)
}

func (in *Interp) oracleConcrete(name string, n int, va Slice) []*term.Term {
	var bs [][]byte
	if va.Len > 0 {
		arr := in.sliceArray(va)
		for i := 0; i < va.Len; i++ {
			ts := in.sliceTerms(arr.E[va.Off+i].(Slice))
			b := make([]byte, len(ts))
			for k, t := range ts {
				v, _ := t.U64()
				b[k] = byte(v)
			}
			bs = append(bs, b)
		}
	}
	out := nativeOracle(name, n, bs)
	r := make([]*term.Term, n)
	for i := range r {
		r[i] = term.Const(8, uint64(out[i]))
	}
	return r
}

func (in *Interp) mkError(msg string) Value {
	// *errors.errorString
	ep := in.Prog.ImportedPackage("errors")
	if ep != nil {
		if m := ep.Members["errorString"]; m != nil {
			obj := in.newObject(&Struct{F: []Value{Str{S: msg}}}, m.Type())
			return Iface{T: types.NewPointer(m.Type()), V: Pointer{Obj: obj}}
		}
	}
	return Iface{T: types.Typ[types.String], V: Str{S: msg}}
}

func (in *Interp) sprintf(a []Value) Value {
	f, ok := a[0].(Str)
	if !ok || f.B != nil {
		return Str{S: "<sprintf>"}
	}
	// minimal rendering: %s / %d / %v / %q / %x of concrete strings and ints, else placeholder
	va, _ := a[1].(Slice)
	var args []Value
	if va.Len > 0 {
		arr := in.sliceArray(va)
		args = arr.E[va.Off : va.Off+va.Len]
	}
	var out []*term.Term
	lit := func(s string) {
		for i := 0; i < len(s); i++ {
			out = append(out, term.Const(8, uint64(s[i])))
		}
	}
	ai := 0
	s := f.S
	for i := 0; i < len(s); i++ {
		if s[i] != '%' || i+1 >= len(s) {
			lit(s[i : i+1])
			continue
		}
		j := i + 1
		for j < len(s) && strings.IndexByte("+-# 0123456789.", s[j]) >= 0 {
			j++
		}
		if j >= len(s) {
			lit(s[i:])
			break
		}
		verb := s[j]
		spec := s[i : j+1]
		i = j
		if verb == '%' {
			lit("%")
			continue
		}
		if ai >= len(args) {
			lit("%!" + string(verb) + "(MISSING)")
			continue
		}
		arg := args[ai]
		ai++
		if iv, ok := arg.(Iface); ok {
			arg = iv.V
			if iv.T == nil {
				lit("<nil>")
				continue
			}
		}
		switch x := arg.(type) {
		case Str:
			if verb == 's' || verb == 'v' {
				out = append(out, x.Bytes()...)
				continue
			}
			if verb == 'q' && x.B == nil {
				lit(fmt.Sprintf("%q", x.S))
				continue
			}
		case *term.Term:
			if v, ok := x.S64(); ok && x.W > 0 && spec == "%d" {
				lit(fmt.Sprintf("%d", v))
				continue
			}
			if v, ok := x.U64(); ok && x.W > 0 && (verb == 'd' || verb == 'x' || verb == 'v' || verb == 'c') {
				lit(fmt.Sprintf(spec, v))
				continue
			}
		}
		lit("<" + spec + ">")
	}
	return mkStr(out)
}

// lock bookkeeping
func (in *Interp) lockOp(p Value, d int) Value {
	ptr := p.(Pointer)
	if ptr.Obj == nil {
		in.goPanicRuntime("nil mutex")
	}
	key := fmt.Sprintf("%d%v", ptr.Obj.ID, ptr.Path)
	if d > 0 {
		if in.locks[key] > 0 {
			panic(pathEnd{endBlocked, "BLOCKED: Lock of a mutex already held (self-deadlock) at " + in.Prog.Fset.Position(in.curPos).String()})
		}
		in.locks[key]++
	} else {
		if in.locks[key] == 0 {
			in.goPanic(Iface{T: types.Typ[types.String], V: Str{S: "sync: unlock of unlocked mutex"}})
		}
		in.locks[key]--
	}
	return Tuple(nil)
}

func (in *Interp) locksHeld() []string {
	var out []string
	for k, n := range in.locks {
		if n > 0 {
			out = append(out, k)
		}
	}
	return out
}

// prefixIntrinsic handles families of functions by package.
func (in *Interp) prefixIntrinsic(fn *ssa.Function, name string) intrinsic {
	if fn.Pkg == nil {
		return nil
	}
	switch fn.Pkg.Pkg.Path() {
	case "sync/atomic":
		return in.atomicIntrinsic(fn, name)
	case "internal/race", "internal/msan", "internal/asan":
		return func(in *Interp, a []Value, _ *Frame) Value { return in.zeroResults(fn) }
	case "crypto/internal/fips140", "crypto/internal/fips140/check", "crypto/internal/fips140only":
		switch fn.Name() {
		case "RecordApproved", "RecordNonApproved", "CAST", "PCT":
			return func(in *Interp, a []Value, _ *Frame) Value { return in.zeroResults(fn) }
		case "Enabled", "Enforced":
			return func(in *Interp, a []Value, _ *Frame) Value { return term.False }
		}
	case "crypto/internal/boring":
		return nil
	}
	return nil
}

func (in *Interp) atomicIntrinsic(fn *ssa.Function, name string) intrinsic {
	n := fn.Name()
	recv := fn.Signature.Recv() != nil
	field := func(a []Value) Pointer {
		p := a[0].(Pointer)
		if !recv {
			return p
		}
		// atomic.Int32 etc: struct{_ noCopy; v T} or {_ , _ align64, v}
		get, _ := in.slot(p.Obj, p.Path)
		st, ok := get().(*Struct)
		if !ok {
			panic(in.unsupported("atomic receiver " + name))
		}
		np := append(append([]PathElem{}, p.Path...), PathElem{I: len(st.F) - 1})
		return Pointer{Obj: p.Obj, Path: np}
	}
	switch {
	case n == "Load" || strings.HasPrefix(n, "Load"):
		return func(in *Interp, a []Value, _ *Frame) Value { return in.atomicLoad(fn, field(a)) }
	case n == "Store" || strings.HasPrefix(n, "Store"):
		return func(in *Interp, a []Value, _ *Frame) Value { in.atomicStore(fn, field(a), a[1]); return Tuple(nil) }
	case n == "Add" || strings.HasPrefix(n, "Add"):
		return func(in *Interp, a []Value, _ *Frame) Value {
			p := field(a)
			v := term.Add(in.load(p).(*term.Term), a[1].(*term.Term))
			in.store(p, v)
			return v
		}
	case n == "Swap" || strings.HasPrefix(n, "Swap"):
		return func(in *Interp, a []Value, _ *Frame) Value {
			p := field(a)
			old := in.atomicLoad(fn, p)
			in.atomicStore(fn, p, a[1])
			return old
		}
	case strings.HasPrefix(n, "CompareAndSwap"):
		return func(in *Interp, a []Value, _ *Frame) Value {
			p := field(a)
			old := in.atomicLoad(fn, p)
			eq := in.valueEq(old, a[1])
			if in.decide(eq, nil, nil) {
				in.atomicStore(fn, p, a[2])
				return term.True
			}
			return term.False
		}
	}
	return nil
}

func (in *Interp) atomicLoad(fn *ssa.Function, p Pointer) Value {
	v := in.load(p)
	// atomic.Bool stores uint32
	if fn.Signature.Results().Len() == 1 {
		if b, ok := fn.Signature.Results().At(0).Type().Underlying().(*types.Basic); ok && b.Kind() == types.Bool {
			if t, ok := v.(*term.Term); ok && t.W != 0 {
				return term.BNot(term.Eq(t, term.Const(t.W, 0)))
			}
		}
	}
	return v
}

func (in *Interp) atomicStore(fn *ssa.Function, p Pointer, v Value) {
	old := in.load(p)
	if ot, ok := old.(*term.Term); ok {
		if nt, ok := v.(*term.Term); ok && ot.W != nt.W && nt.W == 0 {
			v = term.Ite(nt, term.Const(ot.W, 1), term.Const(ot.W, 0))
		}
	}
	in.store(p, v)
}

// assert handles verifrt.Assert.
func (in *Interp) assert(c *term.Term, label string) {
	pos := in.Prog.Fset.Position(in.curPos).String()
	if in.concrete {
		b, _ := c.BoolVal()
		in.Events = append(in.Events, fmt.Sprintf("assert %s %v", label, b))
		if !b {
			in.Asserts = append(in.Asserts, Assertion{Label: label, Verdict: "sat", Pos: pos, Path: in.pathID})
			panic(pathEnd{endAssume, "concrete assert failed"})
		}
		return
	}
	if b, ok := c.BoolVal(); ok && b {
		in.Asserts = append(in.Asserts, Assertion{Label: label, Verdict: "trivial", Pos: pos, Path: in.pathID, Sym: len(in.pc) > 0})
		return
	}
	t0 := nowMs()
	var res smt.Result
	var model map[string]*big.Int
	solver := ""
	if in.model != nil {
		if v, ok := term.Eval(c, in.model); ok && v.Sign() == 0 {
			res, model, solver = smt.Sat, in.model, "model-reuse"
		}
	}
	if solver == "" && StopOnSat {
		if m := in.randomWitness(c, 3); m != nil {
			res, model, solver = smt.Sat, m, "random-witness"
		}
	}
	if solver == "" {
		res, model, solver = in.check(term.BNot(c), true)
	}
	a := Assertion{Label: label, Solver: solver, Ms: nowMs() - t0, PCSize: term.Size(append(append([]*term.Term{}, in.pc...), c)...), Pos: pos, Path: in.pathID, Sym: true}
	switch res {
	case smt.Unsat:
		a.Verdict = "unsat"
	case smt.Sat:
		a.Verdict = "sat"
		a.Values, a.Symbols = in.modelValues(model)
	default:
		a.Verdict = "unknown"
	}
	in.Asserts = append(in.Asserts, a)
	if debugOn {
		fmt.Fprintf(os.Stderr, "assert path=%d %q %s %s %dms nodes=%d\n", in.pathID, label, a.Verdict, a.Solver, a.Ms, a.PCSize)
	}
	if StopOnSat && res == smt.Sat {
		// native semantics: a failed Assert panics, the rest of the harness does not run.
		// Without this the path continues under the assumption c, which for a refuted ARX
		// equality poisons every later query on the path with a collision-search constraint.
		panic(pathEnd{endAssume, "assertion violated: " + label})
	}
	in.addPC(c)
}

// StopOnSat (gosym -stop-on-sat): end a path at its first refuted assertion instead of
// continuing under the assumption that the assertion holds.
var StopOnSat bool

func (in *Interp) modelValues(model map[string]*big.Int) ([]string, []string) {
	vals := make([]string, len(in.syms))
	names := make([]string, len(in.syms))
	for i, s := range in.syms {
		names[i] = s.Name
		if v, ok := model[s.Name]; ok {
			vals[i] = v.String()
		} else {
			vals[i] = "0"
		}
	}
	return vals, names
}
