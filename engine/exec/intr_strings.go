package exec

// String helpers whose std bodies use unsafe.String/unsafe.StringData.

func init() {
	// Clone returns a fresh copy of s; strings are immutable values in the engine, so the
	// identity is an exact model (std body: unsafe.String(&b[0], len(b))).
	clone := func(in *Interp, a []Value, _ *Frame) Value { return a[0] }
	RegisterIntrinsic("internal/stringslite.Clone", clone)
	RegisterIntrinsic("strings.Clone", clone)
}
