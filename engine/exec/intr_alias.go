package exec

import "verif/engine/term"

// Models of the buffer-aliasing predicates. The purego variants use reflect.Value.Pointer and
// the default ones unsafe.Pointer arithmetic; both are address comparisons, which the engine
// decides exactly on its object/offset representation of slices: two slices share memory iff
// they view the same backing array of the same object and their index ranges intersect.

func sameBacking(a, b Slice) (same bool, known bool) {
	if a.Obj != b.Obj {
		return false, true
	}
	if len(a.Path) != len(b.Path) {
		return false, false
	}
	for i := range a.Path {
		p, q := a.Path[i], b.Path[i]
		if p.Sym != nil || q.Sym != nil || p.IsWin || q.IsWin {
			return false, false
		}
		if p.I != q.I {
			// distinct fields/elements of the same object: disjoint memory
			return false, true
		}
	}
	return true, true
}

func anyOverlap(in *Interp, a []Value, _ *Frame) Value {
	x, y := a[0].(Slice), a[1].(Slice)
	if x.Len == 0 || y.Len == 0 || x.Nil || y.Nil {
		return term.Bool(false)
	}
	same, known := sameBacking(x, y)
	if !known {
		panic(in.unsupported("alias.AnyOverlap on slices with window/symbolic paths"))
	}
	if !same {
		return term.Bool(false)
	}
	return term.Bool(x.Off < y.Off+y.Len && y.Off < x.Off+x.Len)
}

func inexactOverlap(in *Interp, a []Value, fr *Frame) Value {
	x, y := a[0].(Slice), a[1].(Slice)
	if x.Len == 0 || y.Len == 0 || x.Nil || y.Nil {
		return term.Bool(false)
	}
	same, known := sameBacking(x, y)
	if !known {
		panic(in.unsupported("alias.InexactOverlap on slices with window/symbolic paths"))
	}
	if !same || x.Off == y.Off {
		return term.Bool(false)
	}
	return anyOverlap(in, a, fr)
}

func init() {
	for _, p := range []string{"golang.org/x/crypto/internal/alias.", "crypto/internal/fips140/alias."} {
		RegisterIntrinsic(p+"AnyOverlap", anyOverlap)
		RegisterIntrinsic(p+"InexactOverlap", inexactOverlap)
	}
}
