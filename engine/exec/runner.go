package exec

import (
	"crypto/sha256"
	"encoding/binary"
	"fmt"
	"go/types"
	"math/big"
	"os"
	"sort"
	"strings"
	"time"

	"golang.org/x/tools/go/ssa"
	"verif/engine/smt"
	"verif/engine/term"
)

func nowMs() int64 { return time.Now().UnixMilli() }

func nativeOracle(name string, outLen int, args [][]byte) []byte {
	h := sha256.New()
	h.Write([]byte(name))
	var l [8]byte
	for _, a := range args {
		binary.LittleEndian.PutUint64(l[:], uint64(len(a)))
		h.Write(l[:])
		h.Write(a)
	}
	seed := h.Sum(nil)
	out := make([]byte, 0, outLen+32)
	ctr := uint64(0)
	for len(out) < outLen {
		binary.LittleEndian.PutUint64(l[:], ctr)
		x := sha256.Sum256(append(append([]byte{}, seed...), l[:]...))
		out = append(out, x[:]...)
		ctr++
	}
	return out[:outLen]
}

// PathResult summarises one explored path.
type PathResult struct {
	ID      int
	End     string // ok | panic | assume | unsupported | unwind | blocked | steps | infeasible
	Msg     string
	Values  []string
	Symbols []string
	Steps   int
	NSym    int
	PCLen   int
}

type Result struct {
	Harness     string
	Doc         string
	Paths       []PathResult
	Asserts     []Assertion
	Reached     map[string]bool
	Transitions int
	Queries     int
	Funcs       []string
	WallMs      int64
	SolverStats map[string]*smt.Stat
	SolverErrs  []string
	InitErrors  []string
	MaxPaths    bool
	Events      []string
	GoCalls     []string
}

type Options struct {
	Unwind    int
	MaxSteps  int
	MaxPaths  int
	Concrete  bool
	Seed      uint64
	TimeLimit time.Duration
}

func NewShared(prog *ssa.Program, solver *smt.Solver, stubs map[string]*ssa.Function) *Shared {
	installThreadIntrinsics()
	return &Shared{
		Prog:      prog,
		Globals:   map[*ssa.Global]*Object{},
		InitDone:  map[*ssa.Package]bool{},
		Stubs:     stubs,
		Solver:    solver,
		FuncsSeen: map[string]bool{},
		Sizes:     types.SizesFor("gc", "amd64"),
	}
}

// Run explores all paths of harness fn.
func Run(sh *Shared, fn *ssa.Function, opt Options) *Result {
	t0 := time.Now()
	res := &Result{Harness: fn.String(), Reached: map[string]bool{}}
	work := [][]Decision{nil}
	pathID := 0
	DeadlineHit = false
	Deadline = time.Time{}
	if opt.TimeLimit > 0 {
		Deadline = t0.Add(opt.TimeLimit)
	}
	for len(work) > 0 {
		if opt.MaxPaths > 0 && pathID >= opt.MaxPaths {
			res.MaxPaths = true
			break
		}
		if opt.TimeLimit > 0 && (time.Since(t0) > opt.TimeLimit || DeadlineHit) {
			res.MaxPaths = true
			break
		}
		prefix := work[len(work)-1]
		work = work[:len(work)-1]
		in := &Interp{
			Shared:   sh,
			prefix:   prefix,
			unwindN:  opt.Unwind,
			maxSteps: opt.MaxSteps,
			journal:  map[*Object]Value{},
			Reached:  res.Reached,
			pathID:   pathID,
			concrete: opt.Concrete,
			rnd:      opt.Seed,
			locks:    map[string]int{},
			onceDone: map[string]bool{},
			mlocks:   map[string]*lockState{},
			condGen:  map[string]int{},
			condWaiters:  map[string][]int{},
			condReleased: map[string]map[int]bool{},
			wgCount:  map[string]int{},
		}
		if len(prefix) == 0 {
			in.model = map[string]*big.Int{}
		}
		pr := in.runPath(fn)
		in.killThreads()
		if len(in.ts.trace) > 0 && pr.Msg != "" {
			pr.Msg += " schedule=" + strings.Join(in.ts.trace, ",")
		}
		pr.ID = pathID
		pathID++
		res.Paths = append(res.Paths, pr)
		res.Asserts = append(res.Asserts, in.Asserts...)
		res.Events = append(res.Events, in.Events...)
		res.GoCalls = append(res.GoCalls, in.goCalls...)
		work = append(work, in.alts...)
		// restore shared objects
		for o, v := range in.journal {
			o.V = v
		}
	}
	res.Transitions = sh.Transitions
	res.Queries = sh.Queries
	for f := range sh.FuncsSeen {
		res.Funcs = append(res.Funcs, f)
	}
	sort.Strings(res.Funcs)
	res.WallMs = time.Since(t0).Milliseconds()
	res.SolverStats = sh.Solver.Stats
	res.SolverErrs = sh.Solver.Errors
	res.InitErrors = sh.InitErrors
	return res
}

func (in *Interp) runPath(fn *ssa.Function) (pr PathResult) {
	defer func() {
		pr.Steps = in.steps
		pr.NSym = len(in.syms)
		pr.PCLen = len(in.pc)
		if r := recover(); r != nil {
			switch x := r.(type) {
			case pathEnd:
				pr.Msg = x.msg
				switch x.kind {
				case endAssume:
					pr.End = "assume"
				case endUnsupported:
					pr.End = "unsupported"
				case endUnwind:
					pr.End = "unwind"
				case endBlocked:
					pr.End = "blocked"
				case endSteps:
					pr.End = "steps"
				case endInfeasible:
					pr.End = "infeasible"
				}
				if (x.kind == endBlocked || x.kind == endUnwind || x.kind == endUnsupported || x.kind == endSteps) && !DeadlineHit {
					if !in.concrete && len(in.syms) > 0 {
						if rs, model, _ := in.check(nil, true); rs == smt.Sat {
							pr.Values, pr.Symbols = in.modelValues(model)
						} else if rs == smt.Unsat {
							pr.End = "infeasible"
						}
					}
				}
			case *GoPanic:
				pr.End = "panic"
				pr.Msg = fmt.Sprintf("%s at %s", describePanic(in, x.V), x.Pos)
				if !in.concrete {
					rs, model, _ := in.check(nil, true)
					switch rs {
					case smt.Sat:
						pr.Values, pr.Symbols = in.modelValues(model)
					case smt.Unsat:
						pr.End = "infeasible"
					default:
						pr.End = "panic-unknown"
					}
				}
			default:
				panic(r)
			}
		}
	}()
	in.ensureInit(fn.Pkg)
	in.call(&Closure{Fn: fn}, nil, nil)
	pr.End = "ok"
	return
}

func describePanic(in *Interp, v Value) string {
	if iv, ok := v.(Iface); ok {
		if iv.T == nil {
			return "panic(nil)"
		}
		switch x := iv.V.(type) {
		case Str:
			if x.B == nil {
				return "panic: " + x.S
			}
		case Pointer:
			if x.Obj != nil {
				if st, ok := x.Obj.V.(*Struct); ok && len(st.F) > 0 {
					if s, ok := st.F[0].(Str); ok && s.B == nil {
						return "panic: " + iv.T.String() + " " + s.S
					}
				}
			}
		case *Struct:
			return "panic: " + iv.T.String() + " " + describe(x)
		}
		return "panic: " + iv.T.String()
	}
	return "panic: " + describe(v)
}

var _ = term.True

func (in *Interp) zeroOrOpaque(t types.Type) (v Value) {
	defer func() {
		if r := recover(); r != nil {
			v = Opaque{"uninitialised"}
		}
	}()
	return in.zero(t)
}

// makeLen models make([]T, n) for a symbolic n: negative => runtime panic; above the harness'
// allocation limit => outside the claim ("arguments that exhaust memory"); else concretised.
func (in *Interp) makeLen(t *term.Term, site ssa.Instruction) int {
	if v, ok := t.S64(); ok {
		return int(v)
	}
	if t.W < 64 {
		t = term.Sext(t, 64)
	}
	if in.decide(term.Slt(t, term.Const(64, 0)), nil, nil) {
		in.goPanicRuntime("makeslice: len out of range")
	}
	lim := in.makeLimit
	if lim == 0 {
		lim = 1 << 12
	}
	if in.decide(term.Slt(term.Const(64, uint64(lim)), t), nil, nil) {
		panic(pathEnd{endAssume, "allocation above MakeLimit"})
	}
	return int(in.concretize(t, "make len"))
}

var debugOn = os.Getenv("GOSYM_DEBUG") != ""
