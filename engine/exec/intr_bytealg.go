package exec

import (
	"verif/engine/term"
)

// internal/bytealg.MakeNoZero(n) allocates n bytes without clearing them (used by
// bytes.Repeat, strings.Builder, ...). Every caller overwrites the bytes before reading them, so
// a zeroed allocation is a sound model. A symbolic length goes through the usual make() rules.
func init() {
	RegisterIntrinsic("internal/bytealg.MakeNoZero", func(in *Interp, a []Value, _ *Frame) Value {
		n := in.makeLen(a[0].(*term.Term), nil)
		b := make([]*term.Term, n)
		z := term.Const(8, 0)
		for i := range b {
			b[i] = z
		}
		return in.byteSlice(b)
	})
}
