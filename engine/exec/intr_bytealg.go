package exec

import "verif/engine/term"

// internal/bytealg.MakeNoZero(n) allocates n bytes without clearing them (used by
// bytes.Repeat, strings.Builder, ...). Every caller overwrites the bytes before reading them, so
// a zeroed allocation is a sound model. A symbolic length goes through the usual make() rules.
func bytealgMakeNoZero(in *Interp, a []Value, _ *Frame) Value {
	n := in.makeLen(a[0].(*term.Term), nil)
	b := make([]*term.Term, n)
	z := term.Const(8, 0)
	for i := range b {
		b[i] = z
	}
	return in.byteSlice(b)
}

// internal/bytealg.Index / IndexString (assembly on amd64): index of the first occurrence of b
// in a, or -1. Branch-free model: an ite chain over the candidate positions, each guarded by the
// conjunction of byte equalities of the window (lengths are concrete in the engine).

func valueBytes(in *Interp, v Value) []*term.Term {
	switch x := v.(type) {
	case Slice:
		return in.sliceTerms(x)
	case Str:
		return x.Bytes()
	}
	panic(in.unsupported("bytealg.Index: unexpected argument kind"))
}

func bytealgIndex(in *Interp, a []Value, _ *Frame) Value {
	hay, needle := valueBytes(in, a[0]), valueBytes(in, a[1])
	res := term.Const(64, ^uint64(0))
	n := len(needle)
	for i := len(hay) - n; i >= 0; i-- {
		eq := strEq(mkStr(hay[i:i+n]), mkStr(needle))
		res = term.Ite(eq, term.Const(64, uint64(i)), res)
	}
	return res
}

func init() {
	RegisterIntrinsic("internal/bytealg.MakeNoZero", bytealgMakeNoZero)
	RegisterIntrinsic("internal/bytealg.Index", bytealgIndex)
	RegisterIntrinsic("internal/bytealg.IndexString", bytealgIndex)
}
