package exec

// Engine-level model of unique.Make (net/netip uses it for its address-family markers z4/z6noz,
// so net.ParseCIDR / netip.Addr.BitLen depend on it): one canonical immutable object per
// distinct concrete value. Handle[T] is struct{ value *T }, so Handle.Value and handle
// comparison then run as ordinary Go.

import (
	"fmt"
	"go/types"
	"sync"

	"verif/engine/term"
)

var (
	uniqueMu  sync.Mutex
	uniqueTab = map[*Interp]map[string]*Object{}
)

func uniqueKey(in *Interp, v Value) string {
	switch x := v.(type) {
	case *term.Term:
		if !x.IsConst() {
			panic(in.unsupported("unique.Make of a symbolic value"))
		}
		return x.String()
	case Str:
		if x.B != nil {
			for _, b := range x.B {
				if !b.IsConst() {
					panic(in.unsupported("unique.Make of a symbolic string"))
				}
			}
			s := "S["
			for _, b := range x.B {
				s += b.String() + ","
			}
			return s + "]"
		}
		return fmt.Sprintf("S%q", x.S)
	case *Struct:
		s := "{"
		for _, f := range x.F {
			s += uniqueKey(in, f) + ";"
		}
		return s + "}"
	case *Array:
		s := "["
		for _, f := range x.E {
			s += uniqueKey(in, f) + ";"
		}
		return s + "]"
	}
	panic(in.unsupported(fmt.Sprintf("unique.Make of %T", v)))
}

func init() {
	RegisterIntrinsic("unique.Make", func(in *Interp, a []Value, _ *Frame) Value {
		var t types.Type
		if in.curFn != nil && len(in.curFn.TypeArgs()) == 1 {
			t = in.curFn.TypeArgs()[0]
		}
		if t == nil {
			panic(in.unsupported("unique.Make: unknown type argument"))
		}
		key := t.String() + "=" + uniqueKey(in, a[0])
		uniqueMu.Lock()
		defer uniqueMu.Unlock()
		tab := uniqueTab[in]
		if tab == nil {
			tab = map[string]*Object{}
			uniqueTab[in] = tab
		}
		o := tab[key]
		if o == nil {
			o = in.newObject(copyVal(a[0]), t)
			tab[key] = o
		}
		return &Struct{F: []Value{Pointer{Obj: o}}}
	})
}
