// Package smt prints term DAGs as SMT-LIB2 and talks to long-lived solver processes.
package smt

import (
	"bufio"
	"fmt"
	"io"
	"math/big"
	"os"
	"os/exec"
	"sort"
	"strings"
	"time"

	"verif/engine/term"
)

type Result int

const (
	Unsat Result = iota
	Sat
	Unknown
)

func (r Result) String() string { return [...]string{"unsat", "sat", "unknown"}[r] }

func sortOf(w int) string {
	if w == 0 {
		return "Bool"
	}
	return fmt.Sprintf("(_ BitVec %d)", w)
}

func constStr(t *term.Term) string {
	if t.W%4 == 0 {
		s := t.BigVal().Text(16)
		for len(s) < t.W/4 {
			s = "0" + s
		}
		return "#x" + s
	}
	s := t.BigVal().Text(2)
	for len(s) < t.W {
		s = "0" + s
	}
	return "#b" + s
}

// Script renders a query. Returns the text and the list of variable names declared.
func Script(asserts []*term.Term) (string, []*term.Term) {
	var sb strings.Builder
	seen := map[int]bool{}
	var order []*term.Term
	var rec func(t *term.Term)
	rec = func(t *term.Term) {
		if seen[t.ID] {
			return
		}
		seen[t.ID] = true
		for _, a := range t.Args {
			rec(a)
		}
		order = append(order, t)
	}
	for _, a := range asserts {
		rec(a)
	}
	var vars []*term.Term
	ufs := map[string]*term.Term{}
	tabs := map[int]*term.Table{}
	for _, t := range order {
		switch t.K {
		case term.KVar:
			vars = append(vars, t)
		case term.KUF:
			ufs[t.Name] = t
		case term.KSelect:
			tabs[t.Tab.ID] = t.Tab
		}
	}
	sort.Slice(vars, func(i, j int) bool { return vars[i].ID < vars[j].ID })
	for _, v := range vars {
		fmt.Fprintf(&sb, "(declare-const %s %s)\n", v.Name, sortOf(v.W))
	}
	var ufn []string
	for n := range ufs {
		ufn = append(ufn, n)
	}
	sort.Strings(ufn)
	for _, n := range ufn {
		u := ufs[n]
		sb.WriteString("(declare-fun " + n + " (")
		for i, a := range u.Args {
			if i > 0 {
				sb.WriteByte(' ')
			}
			sb.WriteString(sortOf(a.W))
		}
		sb.WriteString(") " + sortOf(u.W) + ")\n")
	}
	var tids []int
	for id := range tabs {
		tids = append(tids, id)
	}
	sort.Ints(tids)
	for _, id := range tids {
		tb := tabs[id]
		fmt.Fprintf(&sb, "(declare-fun tab%d (%s) %s)\n", id, sortOf(tb.IdxW), sortOf(tb.ElemW))
		for i, v := range tb.Vals {
			fmt.Fprintf(&sb, "(assert (= (tab%d %s) %s))\n", id, constStr(term.Const(tb.IdxW, uint64(i))), constStr(term.Const(tb.ElemW, v)))
		}
	}
	name := func(t *term.Term) string {
		switch t.K {
		case term.KConst:
			return constStr(t)
		case term.KVar:
			return t.Name
		case term.KTrue:
			return "true"
		case term.KFalse:
			return "false"
		}
		return fmt.Sprintf("t%d", t.ID)
	}
	nary := func(op string, args []*term.Term) string {
		// left-assoc nesting for bv ops (bvadd etc. are binary in strict SMT-LIB; solvers accept n-ary for some, nest to be safe)
		s := name(args[0])
		for _, a := range args[1:] {
			s = "(" + op + " " + s + " " + name(a) + ")"
		}
		return s
	}
	for _, t := range order {
		var e string
		switch t.K {
		case term.KConst, term.KVar, term.KTrue, term.KFalse:
			continue
		case term.KAdd:
			e = nary("bvadd", t.Args)
		case term.KMul:
			e = nary("bvmul", t.Args)
		case term.KAnd:
			e = nary("bvand", t.Args)
		case term.KOr:
			e = nary("bvor", t.Args)
		case term.KXor:
			e = nary("bvxor", t.Args)
		case term.KNot:
			e = "(bvnot " + name(t.Args[0]) + ")"
		case term.KNeg:
			e = "(bvneg " + name(t.Args[0]) + ")"
		case term.KShl:
			e = "(bvshl " + name(t.Args[0]) + " " + name(t.Args[1]) + ")"
		case term.KLshr:
			e = "(bvlshr " + name(t.Args[0]) + " " + name(t.Args[1]) + ")"
		case term.KAshr:
			e = "(bvashr " + name(t.Args[0]) + " " + name(t.Args[1]) + ")"
		case term.KUdiv:
			e = "(bvudiv " + name(t.Args[0]) + " " + name(t.Args[1]) + ")"
		case term.KUrem:
			e = "(bvurem " + name(t.Args[0]) + " " + name(t.Args[1]) + ")"
		case term.KSdiv:
			e = "(bvsdiv " + name(t.Args[0]) + " " + name(t.Args[1]) + ")"
		case term.KSrem:
			e = "(bvsrem " + name(t.Args[0]) + " " + name(t.Args[1]) + ")"
		case term.KExtract:
			e = fmt.Sprintf("((_ extract %d %d) %s)", t.Hi, t.Lo, name(t.Args[0]))
		case term.KConcat:
			s := name(t.Args[0])
			for _, a := range t.Args[1:] {
				s = "(concat " + s + " " + name(a) + ")"
			}
			e = s
		case term.KSext:
			e = fmt.Sprintf("((_ sign_extend %d) %s)", t.W-t.Args[0].W, name(t.Args[0]))
		case term.KIte:
			e = "(ite " + name(t.Args[0]) + " " + name(t.Args[1]) + " " + name(t.Args[2]) + ")"
		case term.KEq:
			e = "(= " + name(t.Args[0]) + " " + name(t.Args[1]) + ")"
		case term.KUlt:
			e = "(bvult " + name(t.Args[0]) + " " + name(t.Args[1]) + ")"
		case term.KUle:
			e = "(bvule " + name(t.Args[0]) + " " + name(t.Args[1]) + ")"
		case term.KSlt:
			e = "(bvslt " + name(t.Args[0]) + " " + name(t.Args[1]) + ")"
		case term.KSle:
			e = "(bvsle " + name(t.Args[0]) + " " + name(t.Args[1]) + ")"
		case term.KBAnd:
			s := "(and"
			for _, a := range t.Args {
				s += " " + name(a)
			}
			e = s + ")"
		case term.KBOr:
			s := "(or"
			for _, a := range t.Args {
				s += " " + name(a)
			}
			e = s + ")"
		case term.KBNot:
			e = "(not " + name(t.Args[0]) + ")"
		case term.KUF:
			if len(t.Args) == 0 {
				e = t.Name
			} else {
				s := "(" + t.Name
				for _, a := range t.Args {
					s += " " + name(a)
				}
				e = s + ")"
			}
		case term.KSelect:
			e = fmt.Sprintf("(tab%d %s)", t.Tab.ID, name(t.Args[0]))
		default:
			panic(fmt.Sprintf("smt: kind %d", t.K))
		}
		fmt.Fprintf(&sb, "(define-fun t%d () %s %s)\n", t.ID, sortOf(t.W), e)
	}
	for _, a := range asserts {
		fmt.Fprintf(&sb, "(assert %s)\n", name(a))
	}
	return sb.String(), vars
}

// Proc is one solver process.
type Proc struct {
	Name string
	cmd  *exec.Cmd
	in   io.WriteCloser
	out  *bufio.Reader
	dead bool
	argv []string
}

func start(name string, argv []string) (*Proc, error) {
	cmd := exec.Command(argv[0], argv[1:]...)
	in, err := cmd.StdinPipe()
	if err != nil {
		return nil, err
	}
	out, err := cmd.StdoutPipe()
	if err != nil {
		return nil, err
	}
	cmd.Stderr = nil
	if err := cmd.Start(); err != nil {
		return nil, err
	}
	return &Proc{Name: name, cmd: cmd, in: in, out: bufio.NewReaderSize(out, 1<<20), argv: argv}, nil
}

func (p *Proc) Kill() {
	if p == nil || p.dead {
		return
	}
	p.dead = true
	p.in.Close()
	p.cmd.Process.Kill()
	p.cmd.Wait()
}

// Solver is a sequential portfolio of solver processes.
type Solver struct {
	TimeoutMs int
	procs     map[string]*Proc
	Order     []string // e.g. z3, cvc5, z3-new
	Stats     map[string]*Stat
	DumpDir   string
	nq        int
	Errors    []string
	Restarts  int // solver processes that died early and were restarted
}

type Stat struct {
	Queries int
	Ms      int64
	Sat     int
	Unsat   int
	Unknown int
}

func New(timeoutMs int, order []string) *Solver {
	return &Solver{TimeoutMs: timeoutMs, procs: map[string]*Proc{}, Order: order, Stats: map[string]*Stat{}}
}

func (s *Solver) argv(name string) []string {
	switch name {
	case "z3":
		// incremental (push/pop) instance: (reset) costs z3 4.8.12 10-150 ms per query, push/pop < 1 ms;
		// it gets a quarter of the time limit, hard queries fall through to cvc5 and one-shot z3 ("z3r")
		t := s.TimeoutMs / 4
		if t < 1000 {
			t = s.TimeoutMs
		}
		return []string{"/usr/bin/z3", "-in", fmt.Sprintf("-t:%d", t)}
	case "z3r":
		return []string{"/usr/bin/z3", "-in", fmt.Sprintf("-t:%d", s.TimeoutMs)}
	case "z3-new":
		t := s.TimeoutMs / 4
		if t < 1000 {
			t = s.TimeoutMs
		}
		return []string{"z3-new", "-in", fmt.Sprintf("-t:%d", t)}
	case "z3-int":
		return []string{"z3-new", "-in", fmt.Sprintf("-t:%d", s.TimeoutMs)}
	case "z3-newr":
		return []string{"z3-new", "-in", fmt.Sprintf("-t:%d", s.TimeoutMs)}
	case "cvc5":
		return []string{"/usr/bin/cvc5", "--incremental", "--lang=smt2", "--produce-models", fmt.Sprintf("--tlimit-per=%d", s.TimeoutMs)}
	}
	panic("unknown solver " + name)
}

func (s *Solver) proc(name string) (*Proc, error) {
	if p, ok := s.procs[name]; ok && !p.dead {
		return p, nil
	}
	p, err := start(name, s.argv(name))
	if err != nil {
		return nil, err
	}
	s.procs[name] = p
	return p, nil
}

func (s *Solver) Close() {
	for _, p := range s.procs {
		p.Kill()
	}
}

type lineRes struct {
	s   string
	err error
}

// run sends script + check-sat (+ get-value) to one solver.
func (s *Solver) run(name, script string, vars []*term.Term, wantModel bool) (Result, map[string]*big.Int, string) {
	// A solver process that dies before its deadline (killed from outside, e.g. another user's
	// `pkill -x z3`) is restarted and the query retried; only a repeated failure is reported.
	for attempt := 0; ; attempt++ {
		t0 := time.Now()
		res, model, e := s.run1(name, script, vars, wantModel)
		died := strings.HasPrefix(e, "write: ") || (e == "timeout/EOF" && time.Since(t0) < time.Duration(s.TimeoutMs)*time.Millisecond)
		if !died || attempt >= 2 {
			return res, model, e
		}
		s.Restarts++
	}
}

func (s *Solver) run1(name, script string, vars []*term.Term, wantModel bool) (Result, map[string]*big.Int, string) {
	p, err := s.proc(name)
	if err != nil {
		return Unknown, nil, "spawn: " + err.Error()
	}
	var sb strings.Builder
	incr := name == "z3" || name == "z3-new"
	if name == "cvc5" {
		sb.WriteString("(reset)\n(set-logic ALL)\n")
	} else if incr {
		sb.WriteString("(push 1)\n")
		defer func() {
			if !p.dead {
				io.WriteString(p.in, "(pop 1)\n")
			}
		}()
	} else {
		sb.WriteString("(reset)\n")
	}
	sb.WriteString(script)
	sb.WriteString("(check-sat)\n(echo \"@@CS\")\n")
	if _, err := io.WriteString(p.in, sb.String()); err != nil {
		p.Kill()
		return Unknown, nil, "write: " + err.Error()
	}
	deadline := time.Duration(s.TimeoutMs)*time.Millisecond + 15*time.Second
	lines, ok := readUntil(p, "@@CS", deadline)
	if !ok {
		p.Kill()
		return Unknown, nil, "timeout/EOF"
	}
	res := Unknown
	errs := ""
	for _, l := range lines {
		switch strings.TrimSpace(l) {
		case "sat":
			res = Sat
		case "unsat":
			res = Unsat
		case "unknown":
			res = Unknown
		}
		if strings.Contains(l, "(error") {
			errs += l + ";"
		}
	}
	if errs != "" {
		return Unknown, nil, "solver error: " + errs
	}
	var model map[string]*big.Int
	if res == Sat && wantModel && len(vars) > 0 {
		var q strings.Builder
		q.WriteString("(get-value (")
		for _, v := range vars {
			q.WriteString(v.Name + " ")
		}
		q.WriteString("))\n(echo \"@@GV\")\n")
		io.WriteString(p.in, q.String())
		ml, ok := readUntil(p, "@@GV", 30*time.Second)
		if !ok {
			p.Kill()
			return Sat, nil, "model read failed"
		}
		model = parseModel(strings.Join(ml, " "))
	}
	return res, model, ""
}

func readUntil(p *Proc, marker string, d time.Duration) ([]string, bool) {
	ch := make(chan lineRes, 1)
	var lines []string
	timer := time.NewTimer(d)
	defer timer.Stop()
	for {
		go func() {
			l, err := p.out.ReadString('\n')
			ch <- lineRes{l, err}
		}()
		select {
		case r := <-ch:
			if r.err != nil {
				return lines, false
			}
			t := strings.TrimSpace(r.s)
			if strings.Trim(t, "\"") == marker {
				return lines, true
			}
			lines = append(lines, t)
		case <-timer.C:
			return lines, false
		}
	}
}

func parseModel(s string) map[string]*big.Int {
	m := map[string]*big.Int{}
	// tokens: ( name value )
	s = strings.NewReplacer("(", " ( ", ")", " ) ").Replace(s)
	tok := strings.Fields(s)
	for i := 0; i+2 < len(tok); i++ {
		if tok[i] == "(" && tok[i+1] != "(" && tok[i+1] != ")" {
			name := tok[i+1]
			val := tok[i+2]
			switch {
			case strings.HasPrefix(val, "#x"):
				v, _ := new(big.Int).SetString(val[2:], 16)
				m[name] = v
			case strings.HasPrefix(val, "#b"):
				v, _ := new(big.Int).SetString(val[2:], 2)
				m[name] = v
			case len(val) > 0 && val[0] >= '0' && val[0] <= '9':
				if v, ok := new(big.Int).SetString(val, 10); ok {
					m[name] = v
				}
			case val == "true":
				m[name] = big.NewInt(1)
			case val == "false":
				m[name] = big.NewInt(0)
			case val == "(" && i+4 < len(tok) && tok[i+3] == "_" && strings.HasPrefix(tok[i+4], "bv"):
				v, _ := new(big.Int).SetString(tok[i+4][2:], 10)
				m[name] = v
			}
		}
	}
	return m
}

// Check decides satisfiability of the conjunction. Portfolio: first definite answer wins.
func (s *Solver) Check(asserts []*term.Term, wantModel bool) (Result, map[string]*big.Int, string) {
	// trivial cases
	var live []*term.Term
	for _, a := range asserts {
		if a.K == term.KFalse {
			return Unsat, nil, "trivial"
		}
		if a.K != term.KTrue {
			live = append(live, a)
		}
	}
	if len(live) == 0 {
		return Sat, map[string]*big.Int{}, "trivial"
	}
	script, vars := Script(live)
	s.nq++
	if s.DumpDir != "" {
		os.WriteFile(fmt.Sprintf("%s/q%05d.smt2", s.DumpDir, s.nq), []byte(script+"(check-sat)\n"), 0o644)
	}
	note := ""
	for _, name := range s.Order {
		t0 := time.Now()
		qs, qv := script, vars
		if name == "z3-int" {
			is, iv, ok := ScriptInt(live)
			if !ok {
				continue // not an arithmetic-only query
			}
			qs, qv = is, iv
			if s.DumpDir != "" {
				os.WriteFile(fmt.Sprintf("%s/q%05d.int.smt2", s.DumpDir, s.nq), []byte(is+"(check-sat)\n"), 0o644)
			}
		}
		res, model, e := s.run(name, qs, qv, wantModel)
		if name == "z3-int" && res == Sat && LastIntHasUF {
			// uninterpreted applications were free integers: only `unsat` carries over
			res, model = Unknown, nil
		}
		st := s.Stats[name]
		if st == nil {
			st = &Stat{}
			s.Stats[name] = st
		}
		st.Queries++
		st.Ms += time.Since(t0).Milliseconds()
		switch res {
		case Sat:
			st.Sat++
		case Unsat:
			st.Unsat++
		default:
			st.Unknown++
		}
		if e != "" {
			note += name + ": " + e + "; "
			if len(s.Errors) < 20 {
				s.Errors = append(s.Errors, name+": "+e)
			}
		}
		if res != Unknown {
			return res, model, name
		}
	}
	return Unknown, nil, note
}
