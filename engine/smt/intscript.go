package smt

// Integer translation of bit-vector queries ("int-blasting") for arithmetic-heavy obligations:
// constant multiplications / divisions / remainders at 64 bits (time and size arithmetic) stall
// bit-blasting back ends but are linear integer arithmetic with explicit wrap-around.
// Every bit-vector term t of width w becomes an integer expression with value in [0, 2^w)
// (its unsigned value); modular operators are followed by `mod 2^w`. Bitwise operators other
// than masks 2^k-1, UFs and table lookups are not translated: ScriptInt then reports ok=false
// and the portfolio skips this back end.

import (
	"fmt"
	"math/big"
	"os"
	"sort"
	"strings"

	"verif/engine/term"
)

var debugInt = os.Getenv("GOSYM_DEBUG_INT") != ""

// LastIntHasUF reports whether the last ScriptInt call abstracted uninterpreted-function
// applications as free integers (its `sat` answers are then not models of the query).
var LastIntHasUF bool

func pow2(w int) string { return new(big.Int).Lsh(big.NewInt(1), uint(w)).String() }

// ScriptInt renders the query over Ints. ok=false if some operator cannot be translated.
func ScriptInt(asserts []*term.Term) (script string, vars []*term.Term, ok bool) {
	var sb strings.Builder
	seen := map[int]bool{}
	var order []*term.Term
	var rec func(t *term.Term)
	rec = func(t *term.Term) {
		if seen[t.ID] {
			return
		}
		seen[t.ID] = true
		for _, a := range t.Args {
			rec(a)
		}
		order = append(order, t)
	}
	for _, a := range asserts {
		rec(a)
	}
	for _, t := range order {
		if t.K == term.KVar {
			vars = append(vars, t)
		}
	}
	sort.Slice(vars, func(i, j int) bool { return vars[i].ID < vars[j].ID })
	for _, v := range vars {
		if v.W == 0 {
			fmt.Fprintf(&sb, "(declare-const %s Bool)\n", v.Name)
		} else {
			fmt.Fprintf(&sb, "(declare-const %s Int)\n(assert (and (<= 0 %s) (< %s %s)))\n", v.Name, v.Name, v.Name, pow2(v.W))
		}
	}
	name := func(t *term.Term) string {
		switch t.K {
		case term.KConst:
			return t.BigVal().String()
		case term.KVar:
			return t.Name
		case term.KTrue:
			return "true"
		case term.KFalse:
			return "false"
		}
		return fmt.Sprintf("t%d", t.ID)
	}
	// signed value of an unsigned representative
	sgn := func(s string, w int) string {
		return "(ite (>= " + s + " " + pow2(w-1) + ") (- " + s + " " + pow2(w) + ") " + s + ")"
	}
	wrap := func(s string, w int) string { return "(mod " + s + " " + pow2(w) + ")" }
	constOf := func(t *term.Term) (*big.Int, bool) {
		if t.K == term.KConst {
			return t.BigVal(), true
		}
		return nil, false
	}
	ok = true
	hasUF := false
	defer func() { LastIntHasUF = hasUF }()
	defer func() {
		if !ok && debugInt {
			for _, t := range order {
				switch t.K {
				case term.KOr, term.KXor, term.KUF, term.KSelect, term.KAnd, term.KShl, term.KLshr, term.KAshr:
					fmt.Fprintf(os.Stderr, "z3-int: cannot translate kind %d w=%d: %s", t.K, t.W, t.String())
					for _, a := range t.Args {
						fmt.Fprintf(os.Stderr, " [k%d w%d ones=%s]", a.K, a.W, maybeOnes(a, map[int]*big.Int{}).Text(16))
					}
					fmt.Fprintln(os.Stderr)
				}
			}
		}
	}()
	for _, t := range order {
		var e string
		sort := "Int"
		if t.W == 0 {
			sort = "Bool"
		}
		switch t.K {
		case term.KConst, term.KVar, term.KTrue, term.KFalse:
			continue
		case term.KAdd, term.KMul:
			op := "+"
			if t.K == term.KMul {
				op = "*"
			}
			s := "(" + op
			for _, a := range t.Args {
				s += " " + name(a)
			}
			e = wrap(s+")", t.W)
		case term.KNeg:
			e = wrap("(- "+pow2(t.W)+" "+name(t.Args[0])+")", t.W)
		case term.KNot:
			e = "(- " + new(big.Int).Sub(new(big.Int).Lsh(big.NewInt(1), uint(t.W)), big.NewInt(1)).String() + " " + name(t.Args[0]) + ")"
		case term.KAnd:
			// x & constant: the sum of the bit runs of the constant taken from x
			if len(t.Args) == 2 {
				var c *big.Int
				var x *term.Term
				if v, isC := constOf(t.Args[0]); isC {
					c, x = v, t.Args[1]
				} else if v, isC := constOf(t.Args[1]); isC {
					c, x = v, t.Args[0]
				}
				if c != nil {
					s := "(+ 0"
					for lo := 0; lo < t.W; {
						if c.Bit(lo) == 0 {
							lo++
							continue
						}
						hi := lo
						for hi+1 < t.W && c.Bit(hi+1) == 1 {
							hi++
						}
						piece := name(x)
						if lo > 0 {
							piece = "(div " + piece + " " + pow2(lo) + ")"
						}
						piece = "(mod " + piece + " " + pow2(hi-lo+1) + ")"
						if lo > 0 {
							piece = "(* " + piece + " " + pow2(lo) + ")"
						}
						s += " " + piece
						lo = hi + 1
					}
					e = s + ")"
					break
				}
			}
			return "", nil, false
		case term.KOr, term.KXor:
			// operands with pairwise disjoint possibly-set bits: bitwise or/xor is addition
			acc := new(big.Int)
			disjoint := true
			for _, a := range t.Args {
				m := maybeOnes(a, map[int]*big.Int{})
				if new(big.Int).And(acc, m).Sign() != 0 {
					disjoint = false
					break
				}
				acc.Or(acc, m)
			}
			if !disjoint {
				return "", nil, false
			}
			s := "(+"
			for _, a := range t.Args {
				s += " " + name(a)
			}
			e = s + ")"
		case term.KUF:
			// an uninterpreted-function application becomes a free integer of its width: sound for
			// `unsat` (functional consistency is an extra constraint); a `sat` answer of this back
			// end is then not trusted (HasUF) and the next solver is asked
			if t.W == 0 {
				return "", nil, false
			}
			fmt.Fprintf(&sb, "(declare-const ufapp%d Int)\n(assert (and (<= 0 ufapp%d) (< ufapp%d %s)))\n", t.ID, t.ID, t.ID, pow2(t.W))
			e = fmt.Sprintf("ufapp%d", t.ID)
			hasUF = true
		case term.KSelect:
			return "", nil, false
		case term.KShl, term.KLshr, term.KAshr:
			c, isC := constOf(t.Args[1])
			if !isC {
				return "", nil, false
			}
			if c.Cmp(big.NewInt(int64(t.W))) >= 0 {
				switch t.K {
				case term.KAshr:
					e = "(ite (>= " + name(t.Args[0]) + " " + pow2(t.W-1) + ") " + new(big.Int).Sub(new(big.Int).Lsh(big.NewInt(1), uint(t.W)), big.NewInt(1)).String() + " 0)"
				default:
					e = "0"
				}
				break
			}
			k := int(c.Int64())
			switch t.K {
			case term.KShl:
				e = wrap("(* "+name(t.Args[0])+" "+pow2(k)+")", t.W)
			case term.KLshr:
				e = "(div " + name(t.Args[0]) + " " + pow2(k) + ")"
			default:
				e = wrap("(div "+sgn(name(t.Args[0]), t.W)+" "+pow2(k)+")", t.W)
			}
		case term.KUdiv:
			a, b := name(t.Args[0]), name(t.Args[1])
			e = "(ite (= " + b + " 0) " + new(big.Int).Sub(new(big.Int).Lsh(big.NewInt(1), uint(t.W)), big.NewInt(1)).String() + " (div " + a + " " + b + "))"
		case term.KUrem:
			a, b := name(t.Args[0]), name(t.Args[1])
			e = "(ite (= " + b + " 0) " + a + " (mod " + a + " " + b + "))"
		case term.KSdiv, term.KSrem:
			w := t.W
			sa, sb2 := sgn(name(t.Args[0]), w), sgn(name(t.Args[1]), w)
			// truncated division on the signed values
			abs := func(s string) string { return "(ite (>= " + s + " 0) " + s + " (- " + s + "))" }
			q := "(ite (= (>= " + sa + " 0) (> " + sb2 + " 0)) (div " + abs(sa) + " " + abs(sb2) + ") (- (div " + abs(sa) + " " + abs(sb2) + ")))"
			if t.K == term.KSdiv {
				// bvsdiv by zero: -1 for non-negative dividend, 1 otherwise
				e = "(ite (= " + name(t.Args[1]) + " 0) (ite (>= " + sa + " 0) " + new(big.Int).Sub(new(big.Int).Lsh(big.NewInt(1), uint(w)), big.NewInt(1)).String() + " 1) " + wrap(q, w) + ")"
			} else {
				e = "(ite (= " + name(t.Args[1]) + " 0) " + name(t.Args[0]) + " " + wrap("(- "+sa+" (* "+q+" "+sb2+"))", w) + ")"
			}
		case term.KExtract:
			s := name(t.Args[0])
			if t.Lo > 0 {
				s = "(div " + s + " " + pow2(t.Lo) + ")"
			}
			e = "(mod " + s + " " + pow2(t.Hi-t.Lo+1) + ")"
		case term.KConcat:
			s := "(+"
			shift := t.W
			for _, a := range t.Args {
				shift -= a.W
				if shift == 0 {
					s += " " + name(a)
				} else {
					s += " (* " + name(a) + " " + pow2(shift) + ")"
				}
			}
			e = s + ")"
		case term.KSext:
			aw := t.Args[0].W
			a := name(t.Args[0])
			ext := new(big.Int).Sub(new(big.Int).Lsh(big.NewInt(1), uint(t.W)), new(big.Int).Lsh(big.NewInt(1), uint(aw)))
			e = "(ite (>= " + a + " " + pow2(aw-1) + ") (+ " + a + " " + ext.String() + ") " + a + ")"
		case term.KIte:
			e = "(ite " + name(t.Args[0]) + " " + name(t.Args[1]) + " " + name(t.Args[2]) + ")"
		case term.KEq:
			e = "(= " + name(t.Args[0]) + " " + name(t.Args[1]) + ")"
		case term.KUlt:
			e = "(< " + name(t.Args[0]) + " " + name(t.Args[1]) + ")"
		case term.KUle:
			e = "(<= " + name(t.Args[0]) + " " + name(t.Args[1]) + ")"
		case term.KSlt:
			w := t.Args[0].W
			e = "(< " + sgn(name(t.Args[0]), w) + " " + sgn(name(t.Args[1]), w) + ")"
		case term.KSle:
			w := t.Args[0].W
			e = "(<= " + sgn(name(t.Args[0]), w) + " " + sgn(name(t.Args[1]), w) + ")"
		case term.KBAnd, term.KBOr:
			s := "(and"
			if t.K == term.KBOr {
				s = "(or"
			}
			for _, a := range t.Args {
				s += " " + name(a)
			}
			e = s + ")"
		case term.KBNot:
			e = "(not " + name(t.Args[0]) + ")"
		default:
			return "", nil, false
		}
		fmt.Fprintf(&sb, "(define-fun t%d () %s %s)\n", t.ID, sort, e)
	}
	for _, a := range asserts {
		fmt.Fprintf(&sb, "(assert %s)\n", name(a))
	}
	return sb.String(), vars, true
}

// maybeOnes over-approximates the set of bits of t that can be 1.
func maybeOnes(t *term.Term, memo map[int]*big.Int) *big.Int {
	if r, ok := memo[t.ID]; ok {
		return r
	}
	all := func(w int) *big.Int {
		return new(big.Int).Sub(new(big.Int).Lsh(big.NewInt(1), uint(w)), big.NewInt(1))
	}
	var r *big.Int
	switch t.K {
	case term.KConst:
		r = new(big.Int).Set(t.BigVal())
	case term.KConcat:
		r = new(big.Int)
		for _, a := range t.Args {
			r.Lsh(r, uint(a.W))
			r.Or(r, maybeOnes(a, memo))
		}
	case term.KExtract:
		r = new(big.Int).Rsh(maybeOnes(t.Args[0], memo), uint(t.Lo))
		r.And(r, all(t.W))
	case term.KAnd:
		r = all(t.W)
		for _, a := range t.Args {
			r.And(r, maybeOnes(a, memo))
		}
	case term.KOr, term.KXor:
		r = new(big.Int)
		for _, a := range t.Args {
			r.Or(r, maybeOnes(a, memo))
		}
	case term.KIte:
		r = new(big.Int).Or(maybeOnes(t.Args[1], memo), maybeOnes(t.Args[2], memo))
	case term.KShl, term.KLshr:
		if t.Args[1].K == term.KConst && t.Args[1].BigVal().IsInt64() && t.Args[1].BigVal().Int64() < int64(t.W) {
			k := uint(t.Args[1].BigVal().Int64())
			if t.K == term.KShl {
				r = new(big.Int).Lsh(maybeOnes(t.Args[0], memo), k)
				r.And(r, all(t.W))
			} else {
				r = new(big.Int).Rsh(maybeOnes(t.Args[0], memo), k)
			}
		} else {
			r = all(t.W)
		}
	default:
		r = all(t.W)
	}
	memo[t.ID] = r
	return r
}
