import json,sys
from collections import Counter
d=json.load(open(sys.argv[1]))
for r in d['Results']:
    print(r['Harness'], 'paths',len(r['Paths']),'q',r['Queries'],'ms',r['WallMs'], 'maxpaths' if r.get('MaxPaths') else '')
    print(' ends',dict(Counter(p['End'] for p in r['Paths'])))
    n=0
    for p in r['Paths']:
        if p['End'] not in ('ok','assume','infeasible'):
            print('  ',p['End'],p['Msg'][:300],(p.get('Values') or [])[:12]); n+=1
            if n>8: break
    for k,v in sorted(Counter((a['Label'],a['Verdict']) for a in r['Asserts']).items()): print('  ',k,v)
    for a in r['Asserts']:
        if a['Verdict']=='sat': print('   CEX',a['Label'],a['Pos'],(a.get('Values') or [])[:16]); break
    if r.get('InitErrors'): print(' initerr',r['InitErrors'][:6])
    if r.get('SolverErrs'): print(' solvererr',r['SolverErrs'][:3])
    print(' reached',r.get('Reached'), {k:(v['Queries'],v['Ms']) for k,v in (r.get('SolverStats') or {}).items()})
