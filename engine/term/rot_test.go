package term

import (
	"math/big"
	"math/bits"
	"math/rand"
	"testing"
)

// Atomic rotations of bitwise terms must keep their value, also under extraction, further
// bitwise operations and nesting; both spellings must give the same term.
func TestAtomicRotationSound(t *testing.T) {
	x, y, z := Var("x", 64), Var("y", 64), Var("z", 64)
	r := rand.New(rand.NewSource(2))
	for n := 1; n < 64; n += 7 {
		a := Xor(x, And(y, Not(z)))
		sh := func(v *Term, k int) *Term {
			return Or(Shl(v, Const(64, uint64(k))), Lshr(v, Const(64, uint64(64-k))))
		}
		rot := sh(a, n)
		if !isRot(rot) {
			t.Fatalf("n=%d: rotation of a bitwise term is not atomic: %v", n, rot)
		}
		rot2 := Or(Lshr(a, Const(64, uint64(64-n))), Shl(a, Const(64, uint64(n))))
		if rot2 != rot {
			t.Fatalf("n=%d: operand order changes the term", n)
		}
		nest := sh(Xor(rot, x), 13)
		lowbyte := Extract(Xor(nest, y), 15, 8)
		for i := 0; i < 200; i++ {
			xv, yv, zv := r.Uint64(), r.Uint64(), r.Uint64()
			m := map[string]*big.Int{"x": new(big.Int).SetUint64(xv), "y": new(big.Int).SetUint64(yv), "z": new(big.Int).SetUint64(zv)}
			av := xv ^ (yv &^ zv)
			want := bits.RotateLeft64(av, n)
			if v, ok := Eval(rot, m); !ok || v.Uint64() != want {
				t.Fatalf("n=%d rot: got %v want %x", n, v, want)
			}
			wn := bits.RotateLeft64(want^xv, 13)
			if v, ok := Eval(nest, m); !ok || v.Uint64() != wn {
				t.Fatalf("n=%d nested: got %v want %x", n, v, wn)
			}
			if v, ok := Eval(lowbyte, m); !ok || v.Uint64() != ((wn^yv)>>8)&0xff {
				t.Fatalf("n=%d extract: got %v want %x", n, v, ((wn^yv)>>8)&0xff)
			}
		}
	}
}

// A rotation of an atomic rotation by the complementary amount must give back the rotated term
// (Feistel round trips: Twofish rotates ic^(t1+k) right by one in Encrypt and left by one in
// Decrypt), and extractions that stay inside one half of an atomic rotation must keep their value.
func TestAtomicRotationInverse(t *testing.T) {
	x, y, k := Var("x", 32), Var("y", 32), Var("k", 32)
	sh := func(v *Term, n int) *Term {
		return Or(Shl(v, Const(32, uint64(n))), Lshr(v, Const(32, uint64(32-n))))
	}
	r := rand.New(rand.NewSource(3))
	for n := 1; n < 32; n++ {
		a := Xor(x, Add(y, k)) // bitwise top, arithmetic below (Twofish: ic ^ (t1 + k))
		rot := sh(a, n)
		if !isRot(rot) {
			t.Fatalf("n=%d: not atomic", n)
		}
		if back := sh(rot, 32-n); back != a {
			t.Fatalf("n=%d: rotl(rotl(a,n),32-n) != a: %v", n, back)
		}
		if got := Xor(sh(rot, 32-n), Add(y, k)); got != x {
			t.Fatalf("n=%d: round trip does not cancel: %v", n, got)
		}
		for _, hl := range [][2]int{{n - 1, 0}, {31, n}, {n - 1, n - 1}, {31, 31}, {n, n}, {0, 0}} {
			e := Extract(rot, hl[0], hl[1])
			for i := 0; i < 50; i++ {
				xv, yv, kv := r.Uint32(), r.Uint32(), r.Uint32()
				m := map[string]*big.Int{"x": big.NewInt(int64(xv)), "y": big.NewInt(int64(yv)), "k": big.NewInt(int64(kv))}
				full := bits.RotateLeft32(xv^(yv+kv), n)
				want := uint64(full>>uint(hl[1])) & mask(hl[0]-hl[1]+1)
				if v, ok := Eval(e, m); !ok || v.Uint64() != want {
					t.Fatalf("n=%d extract[%d:%d]: got %v want %x", n, hl[0], hl[1], v, want)
				}
			}
		}
	}
}

// Slices of a sign-extended (or re-extracted) concatenation are defined through Concat of the
// parts' slices; the slice fusion in Concat must not try to rebuild the slice being defined from
// a recorded origin (stack overflow in cryptobyte ReadASN1Int64 / knownhosts harnesses).
func TestSliceFusionNoSelfReference(t *testing.T) {
	x, y := Var("fx", 8), Var("fy", 8)
	s := Sext(Concat(x, y), 32)
	hi := Extract(s, 15, 8) // == x, records (s,15,8) as an origin of x
	if hi != x {
		t.Fatalf("Extract(sext(x:y),15,8) = %v, want x", hi)
	}
	e := Extract(s, 15, 7) // Concat(x, y[7:7]) is the definition of this very slice
	r := rand.New(rand.NewSource(4))
	for i := 0; i < 100; i++ {
		xv, yv := uint64(r.Intn(256)), uint64(r.Intn(256))
		m := map[string]*big.Int{"fx": new(big.Int).SetUint64(xv), "fy": new(big.Int).SetUint64(yv)}
		want := ((xv<<8 | yv) >> 7) & 0x1ff
		if v, ok := Eval(e, m); !ok || v.Uint64() != want {
			t.Fatalf("got %v want %x", v, want)
		}
	}
	if again := Concat(x, Extract(y, 7, 7)); again != e {
		t.Fatalf("same slices concatenated later give a different term: %v vs %v", again, e)
	}
}
