package term

// Variable-set computation for constraint independence (query slicing).
// Every variable name and every uninterpreted-function name is interned to a small integer;
// the set of symbols below a term is a memoised bitset.

type Bits []uint64

var (
	symIndex = map[string]int{}
	varMemo  = map[int]Bits{}
)

func resetVars() {
	symIndex = map[string]int{}
	varMemo = map[int]Bits{}
}

func symID(name string) int {
	if i, ok := symIndex[name]; ok {
		return i
	}
	i := len(symIndex)
	symIndex[name] = i
	return i
}

func (b Bits) Intersects(c Bits) bool {
	n := len(b)
	if len(c) < n {
		n = len(c)
	}
	for i := 0; i < n; i++ {
		if b[i]&c[i] != 0 {
			return true
		}
	}
	return false
}

// Or returns b|c (may reuse b's storage).
func (b Bits) Or(c Bits) Bits {
	if len(c) > len(b) {
		nb := make(Bits, len(c))
		copy(nb, b)
		b = nb
	}
	for i := range c {
		b[i] |= c[i]
	}
	return b
}

func (b Bits) Empty() bool {
	for _, w := range b {
		if w != 0 {
			return false
		}
	}
	return true
}

// VarSet returns the set of variables and UF symbols occurring in t.
func VarSet(t *Term) Bits {
	if r, ok := varMemo[t.ID]; ok {
		return r
	}
	var r Bits
	switch t.K {
	case KVar:
		i := symID(t.Name)
		r = make(Bits, i/64+1)
		r[i/64] |= 1 << uint(i%64)
	case KConst, KTrue, KFalse:
		r = nil
	default:
		if t.K == KUF {
			i := symID("uf:" + t.Name)
			r = make(Bits, i/64+1)
			r[i/64] |= 1 << uint(i%64)
		}
		for _, a := range t.Args {
			s := VarSet(a)
			if len(s) == 0 {
				continue
			}
			if r == nil {
				r = append(Bits{}, s...)
			} else {
				r = append(Bits{}, r...).Or(s)
			}
		}
	}
	varMemo[t.ID] = r
	return r
}
