package term

import (
	"math/big"
	"math/rand"
	"testing"
)

// The mux canonicalisation must preserve the value of (x&y)|(^x&z) in every argument order.
func TestMuxFormSound(t *testing.T) {
	x, y, z := Var("x", 32), Var("y", 32), Var("z", 32)
	forms := []*Term{
		Or(And(x, y), And(Not(x), z)),
		Or(And(Not(x), z), And(y, x)),
		Or(And(z, Not(x)), And(x, y)),
		Xor(And(Xor(y, z), x), z),
	}
	for _, f := range forms[1:] {
		if f != forms[0] {
			t.Fatalf("forms do not fold to one term: %v vs %v", f, forms[0])
		}
	}
	// (x&y)|(^x&^y) and a non-mux shape
	others := []struct {
		t *Term
		f func(a, b, c uint32) uint32
	}{
		{Or(And(x, y), And(Not(x), Not(y))), func(a, b, c uint32) uint32 { return a&b | ^a&^b }},
		{Or(And(x, y), And(Not(z), y)), func(a, b, c uint32) uint32 { return a&b | ^c&b }},
		{Or(And(Not(x), y), And(x, Not(y))), func(a, b, c uint32) uint32 { return ^a&b | a&^b }},
		{forms[0], func(a, b, c uint32) uint32 { return a&b | ^a&c }},
	}
	r := rand.New(rand.NewSource(1))
	for i := 0; i < 2000; i++ {
		a, b, c := r.Uint32(), r.Uint32(), r.Uint32()
		m := map[string]*big.Int{"x": big.NewInt(int64(a)), "y": big.NewInt(int64(b)), "z": big.NewInt(int64(c))}
		for k, o := range others {
			v, ok := Eval(o.t, m)
			if !ok || uint32(v.Uint64()) != o.f(a, b, c) {
				t.Fatalf("case %d: got %v want %x (term %v)", k, v, o.f(a, b, c), o.t)
			}
		}
	}
}
