// Package term implements hash-consed bit-vector / boolean terms with a local
// rewriter (constant folding, AC normalisation, concat/extract normal forms).
package term

import (
	"fmt"
	"math/big"
	"sort"
	"strings"
)

type Kind uint8

const (
	KConst Kind = iota // BV constant (W<=64 in V, else Big)
	KVar               // symbolic constant (BV or Bool when W==0)
	KTrue
	KFalse
	KAdd // n-ary
	KMul // n-ary
	KAnd // n-ary bitwise
	KOr
	KXor
	KNot
	KNeg
	KShl // binary, shift amount same width
	KLshr
	KAshr
	KUdiv
	KUrem
	KSdiv
	KSrem
	KExtract // Hi, Lo
	KConcat  // n-ary, Args[0] is most significant
	KSext    // W is new width
	KIte
	KEq
	KUlt
	KUle
	KSlt
	KSle
	KBAnd // n-ary boolean
	KBOr
	KBNot
	KUF     // Name, Args, W (0 => Bool)
	KSelect // Tab, Args[0] index
)

// Table is a concrete lookup table (s-box etc).
type Table struct {
	ID    int
	Name  string
	IdxW  int
	ElemW int
	Vals  []uint64
}

type Term struct {
	ID   int
	K    Kind
	W    int // 0 => Bool
	Args []*Term
	V    uint64
	Big  *big.Int
	Name string
	Hi   int
	Lo   int
	Tab  *Table
	hasS int8 // cache: 1 symbolic, 2 not
}

var (
	table   = map[string]*Term{}
	nextID  = 1
	True    *Term
	False   *Term
	tables  = map[string]*Table{}
	NumNode int
)

func init() {
	True = mk(&Term{K: KTrue})
	False = mk(&Term{K: KFalse})
}

// Reset clears the hash-cons table (used between independent harness runs to bound memory).
func Reset() {
	table = map[string]*Term{}
	extractMemo = map[[3]int]*Term{}
	resetVars()
	extractOrigin = map[int][3]int{}
	originTerm = map[int]*Term{}
	sliceOrigin = map[int][]origin{}
	rotTreeMemo = map[int]int{}
	extractBusy = map[[3]int]bool{}
	nextID = 1
	True = mk(&Term{K: KTrue})
	False = mk(&Term{K: KFalse})
}

func key(t *Term) string {
	var sb strings.Builder
	fmt.Fprintf(&sb, "%d:%d:", t.K, t.W)
	switch t.K {
	case KConst:
		if t.Big != nil {
			sb.WriteString(t.Big.Text(16))
		} else {
			fmt.Fprintf(&sb, "%x", t.V)
		}
	case KVar, KUF:
		sb.WriteString(t.Name)
		sb.WriteByte(':')
	case KExtract:
		fmt.Fprintf(&sb, "%d,%d:", t.Hi, t.Lo)
	case KSelect:
		fmt.Fprintf(&sb, "T%d:", t.Tab.ID)
	}
	for _, a := range t.Args {
		fmt.Fprintf(&sb, "%d,", a.ID)
	}
	return sb.String()
}

func mk(t *Term) *Term {
	k := key(t)
	if o, ok := table[k]; ok {
		return o
	}
	t.ID = nextID
	nextID++
	NumNode++
	table[k] = t
	return t
}

func mask(w int) uint64 {
	if w >= 64 {
		return ^uint64(0)
	}
	return (uint64(1) << uint(w)) - 1
}

// Const builds a BV constant of width w (w may exceed 64; v is then zero-extended).
func Const(w int, v uint64) *Term {
	if w <= 0 {
		panic("Const: width")
	}
	if w > 64 {
		return mk(&Term{K: KConst, W: w, Big: new(big.Int).SetUint64(v)})
	}
	return mk(&Term{K: KConst, W: w, V: v & mask(w)})
}

func ConstBig(w int, v *big.Int) *Term {
	m := new(big.Int).Lsh(big.NewInt(1), uint(w))
	x := new(big.Int).Mod(v, m)
	if w <= 64 {
		return Const(w, x.Uint64())
	}
	return mk(&Term{K: KConst, W: w, Big: x})
}

func Bool(b bool) *Term {
	if b {
		return True
	}
	return False
}

func Var(name string, w int) *Term { return mk(&Term{K: KVar, W: w, Name: name}) }

func (t *Term) IsConst() bool { return t.K == KConst || t.K == KTrue || t.K == KFalse }
func (t *Term) IsBool() bool  { return t.W == 0 }

// BigVal returns the constant's value.
func (t *Term) BigVal() *big.Int {
	if t.Big != nil {
		return t.Big
	}
	return new(big.Int).SetUint64(t.V)
}

// U64 returns the constant value (W<=64) and ok.
func (t *Term) U64() (uint64, bool) {
	if t.K == KConst && t.Big == nil {
		return t.V, true
	}
	if t.K == KConst && t.Big != nil && t.Big.IsUint64() {
		return t.Big.Uint64(), true
	}
	return 0, false
}

func (t *Term) BoolVal() (bool, bool) {
	if t.K == KTrue {
		return true, true
	}
	if t.K == KFalse {
		return false, true
	}
	return false, false
}

func sext64(v uint64, w int) int64 {
	if w >= 64 {
		return int64(v)
	}
	sh := uint(64 - w)
	return int64(v<<sh) >> sh
}

// S64 returns the constant as a sign-extended value.
func (t *Term) S64() (int64, bool) {
	v, ok := t.U64()
	if !ok || t.W > 64 {
		return 0, false
	}
	return sext64(v, t.W), true
}

func allConst64(args ...*Term) bool {
	for _, a := range args {
		if a.K != KConst || a.Big != nil {
			return false
		}
	}
	return true
}

func sortByID(a []*Term) { sort.Slice(a, func(i, j int) bool { return a[i].ID < a[j].ID }) }

// ---------- arithmetic ----------

func Add(a, b *Term) *Term { return AddN(a, b) }

func AddN(args ...*Term) *Term {
	w := args[0].W
	var flat []*Term
	var c uint64
	var cb *big.Int
	var rec func(t *Term)
	rec = func(t *Term) {
		if t.W != w {
			panic(fmt.Sprintf("Add width mismatch %d vs %d", t.W, w))
		}
		switch {
		case t.K == KAdd:
			for _, x := range t.Args {
				rec(x)
			}
		case t.K == KConst:
			if w <= 64 {
				c += t.V
			} else {
				if cb == nil {
					cb = new(big.Int)
				}
				cb.Add(cb, t.BigVal())
			}
		default:
			flat = append(flat, t)
		}
	}
	for _, a := range args {
		rec(a)
	}
	// cancel x and Neg(x)
	if len(flat) > 1 {
		cnt := map[int]int{}
		byID := map[int]*Term{}
		for _, t := range flat {
			if t.K == KNeg {
				cnt[t.Args[0].ID]--
				byID[t.Args[0].ID] = t.Args[0]
			} else {
				cnt[t.ID]++
				byID[t.ID] = t
			}
		}
		flat = flat[:0]
		for id, n := range cnt {
			for ; n > 0; n-- {
				flat = append(flat, byID[id])
			}
			for ; n < 0; n++ {
				flat = append(flat, mk(&Term{K: KNeg, W: w, Args: []*Term{byID[id]}}))
			}
		}
	}
	sortByID(flat)
	var ct *Term
	if w <= 64 {
		if c&mask(w) != 0 {
			ct = Const(w, c)
		}
	} else if cb != nil && cb.Sign() != 0 {
		ct = ConstBig(w, cb)
		if ct.BigVal().Sign() == 0 {
			ct = nil
		}
	}
	if ct != nil {
		flat = append(flat, ct)
	}
	if len(flat) == 0 {
		return Const(w, 0)
	}
	if len(flat) == 1 {
		return flat[0]
	}
	return mk(&Term{K: KAdd, W: w, Args: flat})
}

func Neg(a *Term) *Term {
	if a.K == KConst {
		if a.W <= 64 {
			return Const(a.W, -a.V)
		}
		return ConstBig(a.W, new(big.Int).Neg(a.BigVal()))
	}
	if a.K == KNeg {
		return a.Args[0]
	}
	return mk(&Term{K: KNeg, W: a.W, Args: []*Term{a}})
}

func Sub(a, b *Term) *Term {
	if a == b {
		return Const(a.W, 0)
	}
	return AddN(a, Neg(b))
}

func Mul(a, b *Term) *Term {
	w := a.W
	if b.W != w {
		panic("Mul width mismatch")
	}
	if allConst64(a, b) && w <= 64 {
		return Const(w, a.V*b.V)
	}
	if a.K == KConst && b.K == KConst {
		return ConstBig(w, new(big.Int).Mul(a.BigVal(), b.BigVal()))
	}
	if a.K == KConst {
		a, b = b, a
	}
	if b.K == KConst && b.Big == nil {
		if b.V == 0 {
			return Const(w, 0)
		}
		if b.V == 1 {
			return a
		}
		// power of two => shift
		if b.V&(b.V-1) == 0 {
			k := 0
			for (uint64(1) << uint(k)) != b.V {
				k++
			}
			return Shl(a, Const(w, uint64(k)))
		}
	}
	args := []*Term{a, b}
	if b.K != KConst {
		sortByID(args)
	}
	return mk(&Term{K: KMul, W: w, Args: args})
}

func divop(k Kind, a, b *Term) *Term {
	w := a.W
	if allConst64(a, b) && w <= 64 && b.V != 0 {
		switch k {
		case KUdiv:
			return Const(w, a.V/b.V)
		case KUrem:
			return Const(w, a.V%b.V)
		case KSdiv:
			x, y := sext64(a.V, w), sext64(b.V, w)
			if y == -1 {
				return Const(w, uint64(-x))
			}
			return Const(w, uint64(x/y))
		case KSrem:
			x, y := sext64(a.V, w), sext64(b.V, w)
			if y == -1 {
				return Const(w, 0)
			}
			return Const(w, uint64(x%y))
		}
	}
	if b.K == KConst && b.Big == nil && b.V != 0 && b.V&(b.V-1) == 0 {
		kk := 0
		for (uint64(1) << uint(kk)) != b.V {
			kk++
		}
		if k == KUdiv {
			return Lshr(a, Const(w, uint64(kk)))
		}
		if k == KUrem {
			if kk == 0 {
				return Const(w, 0)
			}
			return Zext(Extract(a, kk-1, 0), w)
		}
	}
	return mk(&Term{K: k, W: w, Args: []*Term{a, b}})
}

func Udiv(a, b *Term) *Term { return divop(KUdiv, a, b) }
func Urem(a, b *Term) *Term { return divop(KUrem, a, b) }
func Sdiv(a, b *Term) *Term { return divop(KSdiv, a, b) }
func Srem(a, b *Term) *Term { return divop(KSrem, a, b) }

// ---------- bitwise ----------

func bitN(k Kind, args []*Term) *Term {
	w := args[0].W
	var flat []*Term
	var c uint64
	switch k {
	case KAnd:
		c = mask(64)
	}
	var cb *big.Int
	var rec func(t *Term)
	rec = func(t *Term) {
		if t.W != w {
			panic(fmt.Sprintf("bitop width mismatch %d vs %d", t.W, w))
		}
		if t.K == k {
			for _, x := range t.Args {
				rec(x)
			}
			return
		}
		if t.K == KConst {
			if w <= 64 {
				switch k {
				case KAnd:
					c &= t.V
				case KOr:
					c |= t.V
				case KXor:
					c ^= t.V
				}
			} else {
				if cb == nil {
					if k == KAnd {
						cb = new(big.Int).Sub(new(big.Int).Lsh(big.NewInt(1), uint(w)), big.NewInt(1))
					} else {
						cb = new(big.Int)
					}
				}
				switch k {
				case KAnd:
					cb.And(cb, t.BigVal())
				case KOr:
					cb.Or(cb, t.BigVal())
				case KXor:
					cb.Xor(cb, t.BigVal())
				}
			}
			return
		}
		flat = append(flat, t)
	}
	for _, a := range args {
		rec(a)
	}
	sortByID(flat)
	// dedupe / cancel
	out := flat[:0]
	for i := 0; i < len(flat); i++ {
		if i+1 < len(flat) && flat[i] == flat[i+1] {
			if k == KXor {
				i++
				continue
			}
			continue // and/or: drop one duplicate (the next iteration keeps the other)
		}
		out = append(out, flat[i])
	}
	flat = out
	var ct *Term
	if w <= 64 {
		c &= mask(w)
		switch k {
		case KAnd:
			if c == 0 {
				return Const(w, 0)
			}
			if c != mask(w) {
				ct = Const(w, c)
			}
		case KOr:
			if c == mask(w) {
				return Const(w, c)
			}
			if c != 0 {
				ct = Const(w, c)
			}
		case KXor:
			if c != 0 {
				ct = Const(w, c)
			}
		}
	} else if cb != nil {
		full := new(big.Int).Sub(new(big.Int).Lsh(big.NewInt(1), uint(w)), big.NewInt(1))
		switch k {
		case KAnd:
			if cb.Sign() == 0 {
				return Const(w, 0)
			}
			if cb.Cmp(full) != 0 {
				ct = ConstBig(w, cb)
			}
		case KOr:
			if cb.Cmp(full) == 0 {
				return ConstBig(w, cb)
			}
			if cb.Sign() != 0 {
				ct = ConstBig(w, cb)
			}
		case KXor:
			if cb.Sign() != 0 {
				ct = ConstBig(w, cb)
			}
		}
	}
	// x & ~x, x | ~x
	if k != KXor {
		ids := map[int]bool{}
		for _, t := range flat {
			ids[t.ID] = true
		}
		for _, t := range flat {
			if t.K == KNot && ids[t.Args[0].ID] {
				if k == KAnd {
					return Const(w, 0)
				}
				return Not(Const(w, 0))
			}
		}
	}
	if ct != nil {
		// and with constant mask / or with constant: try segment form
		flat = append(flat, ct)
	}
	if len(flat) == 0 {
		switch k {
		case KAnd:
			return Not(Const(w, 0))
		default:
			return Const(w, 0)
		}
	}
	if len(flat) == 1 {
		return flat[0]
	}
	// xor with all-ones constant and a single term => Not
	if k == KXor && len(flat) == 2 && ct != nil && isAllOnes(ct) {
		return Not(flat[0])
	}
	if r := segMerge(k, w, flat); r != nil {
		return r
	}
	if k == KOr && len(flat) == 2 {
		if r := muxForm(flat[0], flat[1]); r != nil {
			return r
		}
	}
	return mk(&Term{K: k, W: w, Args: flat})
}

// muxForm canonicalises the textbook bitwise multiplexer (x & y) | (^x & z) (MD4/MD5/SHA "F"/"Ch",
// RIPEMD f2/f4) to the equivalent form ((y ^ z) & x) ^ z that optimised implementations use, so
// that both spellings fold to the same term. Returns nil if a|b is not of that shape.
func muxForm(a, b *Term) *Term {
	if a.K != KAnd || b.K != KAnd || len(a.Args) != 2 || len(b.Args) != 2 {
		return nil
	}
	for i := 0; i < 2; i++ {
		for j := 0; j < 2; j++ {
			p, q := a.Args[i], b.Args[j]
			y, z := a.Args[1-i], b.Args[1-j]
			switch {
			case q.K == KNot && q.Args[0] == p:
				// (p & y) | (^p & z)
				return Xor(And(Xor(y, z), p), z)
			case p.K == KNot && p.Args[0] == q:
				// (^q & y) | (q & z)
				return Xor(And(Xor(z, y), q), y)
			}
		}
	}
	return nil
}

func isAllOnes(c *Term) bool {
	if c.K != KConst {
		return false
	}
	if c.Big == nil {
		return c.V == mask(c.W)
	}
	full := new(big.Int).Sub(new(big.Int).Lsh(big.NewInt(1), uint(c.W)), big.NewInt(1))
	return c.Big.Cmp(full) == 0
}

func isZero(c *Term) bool {
	if c.K != KConst {
		return false
	}
	if c.Big == nil {
		return c.V == 0
	}
	return c.Big.Sign() == 0
}

func And(a, b *Term) *Term { return bitN(KAnd, []*Term{a, b}) }
func Or(a, b *Term) *Term  { return bitN(KOr, []*Term{a, b}) }
func Xor(a, b *Term) *Term { return bitN(KXor, []*Term{a, b}) }

func Not(a *Term) *Term {
	if a.K == KConst {
		if a.W <= 64 {
			return Const(a.W, ^a.V)
		}
		full := new(big.Int).Sub(new(big.Int).Lsh(big.NewInt(1), uint(a.W)), big.NewInt(1))
		return ConstBig(a.W, new(big.Int).Xor(a.BigVal(), full))
	}
	if a.K == KNot {
		return a.Args[0]
	}
	return mk(&Term{K: KNot, W: a.W, Args: []*Term{a}})
}

// seg is a piece of a bit-vector, from high to low.
type seg struct {
	t *Term // nil => zero
	w int
}

func segsOf(t *Term) []seg {
	switch {
	case t.K == KConcat:
		var out []seg
		for _, a := range t.Args {
			out = append(out, segsOf(a)...)
		}
		return out
	case isZero(t):
		return []seg{{nil, t.W}}
	}
	return []seg{{t, t.W}}
}

func hasZeroSeg(s []seg) bool {
	for _, x := range s {
		if x.t == nil {
			return true
		}
	}
	return false
}

// segMerge: for Or/Xor (and And with constant masks handled elsewhere) of terms whose non-zero
// segments are disjoint, build the Concat directly. Returns nil if not applicable.
func segMerge(k Kind, w int, args []*Term) *Term {
	if k == KAnd {
		return andMask(w, args)
	}
	all := make([][]seg, len(args))
	for i, a := range args {
		all[i] = segsOf(a)
		if len(all[i]) == 1 && all[i][0].t != nil {
			return nil
		}
	}
	// common partition boundaries (bit positions from top)
	cuts := map[int]bool{}
	for _, ss := range all {
		p := 0
		for _, s := range ss {
			p += s.w
			cuts[p] = true
		}
	}
	var cl []int
	for c := range cuts {
		cl = append(cl, c)
	}
	sort.Ints(cl)
	// refine each
	pieces := make([]*Term, len(cl))
	for _, ss := range all {
		p := 0
		ci := 0
		for _, s := range ss {
			end := p + s.w
			for ci < len(cl) && cl[ci] <= end {
				start := p
				if ci > 0 && cl[ci-1] > p {
					start = cl[ci-1]
				}
				if s.t != nil {
					// piece covers bits [start, cl[ci]) from top of the whole; within s: offset from s's top
					offTop := start - p
					pw := cl[ci] - start
					hi := s.w - 1 - offTop
					lo := hi - pw + 1
					sub := Extract(s.t, hi, lo)
					if !isZero(sub) {
						if pieces[ci] != nil {
							return nil // overlap
						}
						pieces[ci] = sub
					}
				}
				ci++
			}
			p = end
		}
	}
	parts := make([]*Term, len(cl))
	prev := 0
	for i, c := range cl {
		if pieces[i] == nil {
			parts[i] = Const(c-prev, 0)
		} else {
			parts[i] = pieces[i]
		}
		prev = c
	}
	return Concat(parts...)
}

// andMask: x & const where const is a contiguous-run mask => concat(0, extract, 0).
func andMask(w int, args []*Term) *Term {
	if len(args) != 2 || w > 64 {
		return nil
	}
	x, c := args[0], args[1]
	if c.K != KConst {
		x, c = c, x
	}
	if c.K != KConst || c.Big != nil {
		return nil
	}
	m := c.V
	if m == 0 {
		return nil
	}
	lo := 0
	for m&1 == 0 {
		m >>= 1
		lo++
	}
	n := 0
	for m&1 == 1 {
		m >>= 1
		n++
	}
	if m != 0 {
		return nil
	}
	hi := lo + n - 1
	var parts []*Term
	if hi < w-1 {
		parts = append(parts, Const(w-1-hi, 0))
	}
	parts = append(parts, Extract(x, hi, lo))
	if lo > 0 {
		parts = append(parts, Const(lo, 0))
	}
	return Concat(parts...)
}

// ---------- shifts ----------

func Shl(a, s *Term) *Term {
	w := a.W
	if sv, ok := s.U64(); ok {
		if sv == 0 {
			return a
		}
		if sv >= uint64(w) {
			return Const(w, 0)
		}
		k := int(sv)
		return Concat(Extract(a, w-1-k, 0), Const(k, 0))
	}
	if s.K == KConst {
		return Const(w, 0)
	}
	if isZero(a) {
		return a
	}
	return mk(&Term{K: KShl, W: w, Args: []*Term{a, fit(s, w)}})
}

func Lshr(a, s *Term) *Term {
	w := a.W
	if sv, ok := s.U64(); ok {
		if sv == 0 {
			return a
		}
		if sv >= uint64(w) {
			return Const(w, 0)
		}
		k := int(sv)
		return Concat(Const(k, 0), Extract(a, w-1, k))
	}
	if s.K == KConst {
		return Const(w, 0)
	}
	if isZero(a) {
		return a
	}
	return mk(&Term{K: KLshr, W: w, Args: []*Term{a, fit(s, w)}})
}

func Ashr(a, s *Term) *Term {
	w := a.W
	if sv, ok := s.U64(); ok {
		if sv == 0 {
			return a
		}
		if sv >= uint64(w) {
			sv = uint64(w - 1)
		}
		k := int(sv)
		return Sext(Extract(a, w-1, k), w)
	}
	if s.K == KConst {
		return Sext(Extract(a, w-1, w-1), w)
	}
	return mk(&Term{K: KAshr, W: w, Args: []*Term{a, fit(s, w)}})
}

// fit converts an unsigned shift amount to width w, saturating (so that amounts >= 2^w still shift everything out).
func fit(s *Term, w int) *Term {
	if s.W == w {
		return s
	}
	if s.W < w {
		return Zext(s, w)
	}
	// s wider: if high bits non-zero, saturate to w (any value >= w shifts everything out)
	hi := Extract(s, s.W-1, w)
	lo := Extract(s, w-1, 0)
	return Ite(Eq(hi, Const(hi.W, 0)), lo, Const(w, uint64(w)))
}

// ---------- structure ----------

var extractMemo = map[[3]int]*Term{}

// sliceOrigin is the reverse of extractMemo for results that are not KExtract nodes
// (pushed-down forms): result ID -> the (a, hi, lo) it is the canonical extraction of. Concat
// uses it to fuse adjacent canonical slices of one term back into that term (bytes of a
// word that went through a []byte and is reassembled).
type origin struct {
	a      *Term
	hi, lo int
}

var sliceOrigin = map[int][]origin{}

// extractBusy holds the extractions being computed. An extraction may delegate to a Concat of
// slices (sign extension or extraction of a concatenation: Extract(Sext(Concat(x, y)), hi, lo)),
// and the slice fusion in Concat must not rebuild that very extraction from a recorded origin:
// it is not memoised yet and the two functions would call each other forever.
var extractBusy = map[[3]int]bool{}

func originsOf(q *Term) []origin {
	if q.K == KExtract {
		return append([]origin{{q.Args[0], q.Hi, q.Lo}}, sliceOrigin[q.ID]...)
	}
	return sliceOrigin[q.ID]
}

// Extract is memoised: pushing extraction through bitwise operators and (for low parts)
// through modular arithmetic walks shared DAGs.
func Extract(a *Term, hi, lo int) *Term {
	if hi < lo || lo < 0 || hi >= a.W {
		panic(fmt.Sprintf("Extract(%d,%d) of width %d", hi, lo, a.W))
	}
	if lo == 0 && hi == a.W-1 {
		return a
	}
	if a.K == KConst {
		return extract1(a, hi, lo)
	}
	k := [3]int{a.ID, hi, lo}
	if r, ok := extractMemo[k]; ok {
		return r
	}
	extractBusy[k] = true
	r := extract1(a, hi, lo)
	delete(extractBusy, k)
	extractMemo[k] = r
	if isBitwise(a) {
		// rotation recognition (rotOf): first bitwise origin of a pushed-down extraction
		if _, ok := extractOrigin[r.ID]; !ok {
			extractOrigin[r.ID] = [3]int{a.ID, hi, lo}
			originTerm[a.ID] = a
		}
	}
	if r.K != KConst && a.K != KConcat && !(r.K == KExtract && r.Args[0] == a) {
		// slice fusion (Concat): all terms r is a canonical slice of
		if os := sliceOrigin[r.ID]; len(os) < 8 {
			sliceOrigin[r.ID] = append(os, origin{a, hi, lo})
		}
	}
	return r
}

// Rotations of bitwise terms. A rotation rotl(a, n) of a term built from and/or/xor/not is kept
// ATOMIC, as Concat(KExtract(a, w-1-n, 0), KExtract(a, w-1, w-n)) with the two extractions NOT
// pushed into a (the only place where a KExtract node has a bitwise argument). Without this,
// pure bitwise networks with rotations (Keccak-f: 24 rounds of xor/and-not/rotate) are sliced
// down to single bits by the Extract push-down. The shape is recognised in Concat from the
// recorded origin of pushed-down extractions, so both bits.RotateLeft and x<<n | x>>(w-n) end here.
var (
	extractOrigin = map[int][3]int{} // result ID -> (argument ID, hi, lo) for bitwise arguments
	originTerm    = map[int]*Term{}
)

func isBitwise(t *Term) bool {
	switch t.K {
	case KAnd, KOr, KXor, KNot:
		return t.W > 1
	}
	return false
}

// isRot reports whether t is an atomic rotation (see above).
func isRot(t *Term) bool {
	if t.K != KConcat || len(t.Args) != 2 {
		return false
	}
	h, l := t.Args[0], t.Args[1]
	return h.K == KExtract && l.K == KExtract && h.Args[0] == l.Args[0] && isBitwise(h.Args[0]) &&
		h.Lo == 0 && l.Lo == h.Hi+1 && l.Hi == h.Args[0].W-1
}

// maxRotPush bounds the work of pushing a slice through nested atomic rotations (see extract1).
// Feistel networks that rotate one word per round stay far below it (Twofish: 8); Keccak-f,
// ChaCha, BLAKE2 exceed it after the first round(s) and keep the opaque form.
const maxRotPush = 16

var rotTreeMemo = map[int]int{}

// rotTree counts the atomic rotations in the tree unfolding of t, saturating at maxRotPush+1,
// descending only through the operators a slice is pushed through by extract1 (bitwise
// operators, concat/extract/sext, ite arms, modular add/neg, and rotations themselves);
// everything else (variables, UF and table applications, products, shifts) is a leaf.
func rotTree(t *Term) int {
	var args []*Term
	n := 0
	switch t.K {
	case KAnd, KOr, KXor, KNot, KExtract, KSext, KAdd, KNeg:
		args = t.Args
	case KConcat:
		if isRot(t) {
			n = 1
			args = t.Args[0].Args // the rotated term, once
		} else {
			args = t.Args
		}
	case KIte:
		args = t.Args[1:]
	default:
		return 0
	}
	if v, ok := rotTreeMemo[t.ID]; ok {
		return v
	}
	for _, x := range args {
		n += rotTree(x)
		if n > maxRotPush {
			n = maxRotPush + 1
			break
		}
	}
	rotTreeMemo[t.ID] = n
	return n
}

// rotOf returns the atomic rotation if Concat(hiPart, loPart) is a rotation of a bitwise term.
func rotOf(hiPart, loPart *Term) *Term {
	o0, ok0 := extractOrigin[hiPart.ID]
	o1, ok1 := extractOrigin[loPart.ID]
	if !ok0 || !ok1 || o0[0] != o1[0] {
		return nil
	}
	a := originTerm[o0[0]]
	if a == nil || o0[2] != 0 || o1[2] != o0[1]+1 || o1[1] != a.W-1 || hiPart.W+loPart.W != a.W {
		return nil
	}
	h := mk(&Term{K: KExtract, W: hiPart.W, Args: []*Term{a}, Hi: o0[1], Lo: 0})
	l := mk(&Term{K: KExtract, W: loPart.W, Args: []*Term{a}, Hi: o1[1], Lo: o1[2]})
	return mk(&Term{K: KConcat, W: a.W, Args: []*Term{h, l}})
}

func extract1(a *Term, hi, lo int) *Term {
	nw := hi - lo + 1
	switch a.K {
	case KConst:
		if a.Big == nil {
			return Const(nw, a.V>>uint(lo))
		}
		return ConstBig(nw, new(big.Int).Rsh(a.Big, uint(lo)))
	case KExtract:
		return Extract(a.Args[0], a.Lo+hi, a.Lo+lo)
	case KConcat:
		if isRot(a) {
			// A slice that lies inside one half of the rotation is that slice of the rotated
			// term b itself, in b's own canonical (pushed-down) form: byte(rotl(b, 8)) and
			// byte(b >> 24) are one term (Twofish: g(ROL(x, 8)) vs s-box lookups on the bytes
			// of x), and rotating back by the complementary amount gives two adjacent
			// canonical slices of b, which Concat fuses to b (Feistel round trips: Twofish
			// Encrypt rotates ic^(t1+k) right by one, Decrypt rotates it left by one). A slice
			// that spans both halves stays an opaque extraction of the rotation, and so does
			// every slice when b nests more than maxRotPush rotations (rotTree): there the
			// push-down would cascade from rotation to rotation (Keccak-f from the second
			// round on does not finish), which is what atomic rotations exist to prevent.
			h, l := a.Args[0], a.Args[1]
			b := h.Args[0]
			if rotTree(b) <= maxRotPush {
				switch {
				case hi < l.W:
					return Extract(b, l.Lo+hi, l.Lo+lo)
				case lo >= l.W:
					return Extract(b, hi-l.W, lo-l.W)
				}
			}
			return mk(&Term{K: KExtract, W: nw, Args: []*Term{a}, Hi: hi, Lo: lo})
		}
		// select overlapping parts
		var parts []*Term
		pos := a.W // top bit position+1 of current arg
		for _, p := range a.Args {
			top := pos - 1
			bot := pos - p.W
			pos = bot
			if bot > hi || top < lo {
				continue
			}
			h := top
			if hi < h {
				h = hi
			}
			l := bot
			if lo > l {
				l = lo
			}
			parts = append(parts, Extract(p, h-bot, l-bot))
		}
		return Concat(parts...)
	case KSext:
		in := a.Args[0]
		if hi < in.W {
			return Extract(in, hi, lo)
		}
	case KAnd, KOr, KXor:
		// always pushed down (one canonical form; memoised, so shared DAGs are walked once)
		args := make([]*Term, len(a.Args))
		for i, x := range a.Args {
			args[i] = Extract(x, hi, lo)
		}
		return bitN(a.K, args)
	case KNot:
		return Not(Extract(a.Args[0], hi, lo))
	case KIte:
		if a.Args[1].IsConst() || a.Args[2].IsConst() {
			return Ite(a.Args[0], Extract(a.Args[1], hi, lo), Extract(a.Args[2], hi, lo))
		}
	case KAdd:
		if lo == 0 {
			args := make([]*Term, len(a.Args))
			for i, x := range a.Args {
				args[i] = Extract(x, hi, 0)
			}
			return AddN(args...)
		}
		if hi < a.W-1 {
			// canonical: slice of the sum truncated to hi+1 bits (so that a[hi:lo] and
			// (a[k:0])[hi:lo] are the same term)
			return Extract(Extract(a, hi, 0), hi, lo)
		}
	case KNeg:
		if lo == 0 {
			return Neg(Extract(a.Args[0], hi, 0))
		}
		if hi < a.W-1 {
			return Extract(Extract(a, hi, 0), hi, lo)
		}
	}
	return mk(&Term{K: KExtract, W: nw, Args: []*Term{a}, Hi: hi, Lo: lo})
}

// allCheap: every term is a constant, variable, concat or extract (extraction does not cascade).
func allCheap(ts []*Term) bool {
	for _, t := range ts {
		switch t.K {
		case KConst, KVar, KConcat, KExtract:
		default:
			return false
		}
	}
	return true
}

func Concat(parts ...*Term) *Term {
	var flat []*Term
	for _, p := range parts {
		if p.K == KConcat {
			flat = append(flat, p.Args...)
		} else {
			flat = append(flat, p)
		}
	}
	// merge adjacent
	out := flat[:0:0]
	for _, p := range flat {
		if n := len(out); n > 0 {
			q := out[n-1]
			if q.K == KConst && p.K == KConst && q.W+p.W <= 64 {
				out[n-1] = Const(q.W+p.W, q.V<<uint(p.W)|p.V)
				continue
			}
			if q.K == KConst && p.K == KConst {
				v := new(big.Int).Lsh(q.BigVal(), uint(p.W))
				v.Or(v, p.BigVal())
				out[n-1] = ConstBig(q.W+p.W, v)
				continue
			}
			if q.K == KExtract && p.K == KExtract && q.Args[0] == p.Args[0] && q.Lo == p.Hi+1 {
				out[n-1] = Extract(q.Args[0], q.Hi, p.Lo)
				continue
			}
			// q is the canonical form of A[hi:lo] and p the canonical (possibly pushed-down)
			// form of A[lo-1:lo-p.W], e.g. the bytes of a sum or xor: fuse to A[hi:lo-p.W].
			if p.K != KConst {
				fused := false
				for _, o := range originsOf(q) {
					if extractBusy[[3]int{o.a.ID, o.hi, o.lo - p.W}] || extractBusy[[3]int{o.a.ID, o.lo - 1, o.lo - p.W}] {
						continue // this Concat is (part of) the definition of that slice
					}
					if o.lo >= p.W && Extract(o.a, o.lo-1, o.lo-p.W) == p {
						out[n-1] = Extract(o.a, o.hi, o.lo-p.W)
						fused = true
						break
					}
				}
				if fused {
					continue
				}
			}
		}
		out = append(out, p)
	}
	if len(out) == 1 {
		return out[0]
	}
	if len(out) == 2 {
		if r := rotOf(out[0], out[1]); r != nil {
			return r
		}
	}
	w := 0
	for _, p := range out {
		w += p.W
	}
	return mk(&Term{K: KConcat, W: w, Args: out})
}

func Zext(a *Term, w int) *Term {
	if w == a.W {
		return a
	}
	if w < a.W {
		return Extract(a, w-1, 0)
	}
	return Concat(Const(w-a.W, 0), a)
}

func Sext(a *Term, w int) *Term {
	if w == a.W {
		return a
	}
	if w < a.W {
		return Extract(a, w-1, 0)
	}
	if a.K == KConst && a.W <= 64 && w <= 64 {
		return Const(w, uint64(sext64(a.V, a.W)))
	}
	if a.K == KConcat && isZero(a.Args[0]) {
		return Zext(a, w)
	}
	return mk(&Term{K: KSext, W: w, Args: []*Term{a}})
}

func Ite(c, a, b *Term) *Term {
	if c.K == KTrue {
		return a
	}
	if c.K == KFalse {
		return b
	}
	if a == b {
		return a
	}
	if a.W != b.W {
		panic(fmt.Sprintf("Ite width mismatch %d vs %d", a.W, b.W))
	}
	if a.W == 0 {
		if a.K == KTrue && b.K == KFalse {
			return c
		}
		if a.K == KFalse && b.K == KTrue {
			return BNot(c)
		}
		if a.K == KTrue {
			return BOr(c, b)
		}
		if a.K == KFalse {
			return BAnd(BNot(c), b)
		}
		if b.K == KTrue {
			return BOr(BNot(c), a)
		}
		if b.K == KFalse {
			return BAnd(c, a)
		}
	}
	if c.K == KBNot {
		return Ite(c.Args[0], b, a)
	}
	return mk(&Term{K: KIte, W: a.W, Args: []*Term{c, a, b}})
}

// ---------- predicates ----------

func Eq(a, b *Term) *Term {
	if a == b {
		return True
	}
	if a.W != b.W {
		panic(fmt.Sprintf("Eq width mismatch %d vs %d", a.W, b.W))
	}
	if a.W == 0 {
		if a.IsConst() {
			a, b = b, a
		}
		if b.K == KTrue {
			return a
		}
		if b.K == KFalse {
			return BNot(a)
		}
	}
	if a.K == KConst && b.K == KConst {
		return Bool(a.BigVal().Cmp(b.BigVal()) == 0)
	}
	if a.ID > b.ID {
		a, b = b, a
	}
	// concat(0,x) == const  => if const high bits nonzero false
	for i := 0; i < 2; i++ {
		x, y := a, b
		if i == 1 {
			x, y = b, a
		}
		if y.K == KConst && x.K == KConcat && isZero(x.Args[0]) {
			zw := x.Args[0].W
			hi := Extract(y, y.W-1, y.W-zw)
			if !isZero(hi) {
				return False
			}
			return Eq(Extract(x, x.W-zw-1, 0), Extract(y, y.W-zw-1, 0))
		}
	}
	// ite(c, k1, k2) == k  with constants
	for i := 0; i < 2; i++ {
		x, y := a, b
		if i == 1 {
			x, y = b, a
		}
		if x.K == KIte && y.K == KConst && x.Args[1].K == KConst && x.Args[2].K == KConst {
			return Ite(x.Args[0], Eq(x.Args[1], y), Eq(x.Args[2], y))
		}
		if x.K == KSelect && y.K == KConst {
			if r := selectEqConst(x, y); r != nil {
				return r
			}
		}
	}
	return mk(&Term{K: KEq, Args: []*Term{a, b}})
}

func cmp(k Kind, a, b *Term) *Term {
	if a.W != b.W {
		panic(fmt.Sprintf("cmp width mismatch %d vs %d", a.W, b.W))
	}
	if a.K == KConst && b.K == KConst && a.W <= 64 {
		switch k {
		case KUlt:
			return Bool(a.V < b.V)
		case KUle:
			return Bool(a.V <= b.V)
		case KSlt:
			return Bool(sext64(a.V, a.W) < sext64(b.V, b.W))
		case KSle:
			return Bool(sext64(a.V, a.W) <= sext64(b.V, b.W))
		}
	}
	if a == b {
		return Bool(k == KUle || k == KSle)
	}
	if k == KUlt && isZero(b) {
		return False
	}
	if k == KUle && isZero(a) {
		return True
	}
	// zero-extended small value vs constant
	if a.W <= 64 && a.K == KConcat && isZero(a.Args[0]) && b.K == KConst {
		inner := a.W - a.Args[0].W
		lim := mask(inner)
		switch k {
		case KUlt:
			if b.V > lim {
				return True
			}
		case KUle:
			if b.V >= lim {
				return True
			}
		case KSlt:
			if sext64(b.V, b.W) > int64(lim) {
				return True
			}
			if sext64(b.V, b.W) <= 0 {
				return False
			}
		case KSle:
			if sext64(b.V, b.W) >= int64(lim) {
				return True
			}
			if sext64(b.V, b.W) < 0 {
				return False
			}
		}
	}
	if a.W <= 64 && b.K == KConcat && isZero(b.Args[0]) && a.K == KConst {
		inner := b.W - b.Args[0].W
		lim := mask(inner)
		switch k {
		case KUlt:
			if a.V >= lim {
				return False
			}
		case KUle:
			if a.V > lim {
				return False
			}
		case KSlt:
			if sext64(a.V, a.W) < 0 {
				return True
			}
			if sext64(a.V, a.W) >= int64(lim) {
				return False
			}
		case KSle:
			if sext64(a.V, a.W) <= 0 {
				return True
			}
			if sext64(a.V, a.W) > int64(lim) {
				return False
			}
		}
	}
	return mk(&Term{K: k, Args: []*Term{a, b}})
}

func Ult(a, b *Term) *Term { return cmp(KUlt, a, b) }
func Ule(a, b *Term) *Term { return cmp(KUle, a, b) }
func Slt(a, b *Term) *Term { return cmp(KSlt, a, b) }
func Sle(a, b *Term) *Term { return cmp(KSle, a, b) }

func boolN(k Kind, args []*Term) *Term {
	var flat []*Term
	var rec func(t *Term) bool
	rec = func(t *Term) bool {
		if t.W != 0 {
			panic("boolN on non-bool")
		}
		if t.K == k {
			for _, x := range t.Args {
				if rec(x) {
					return true
				}
			}
			return false
		}
		if k == KBAnd {
			if t.K == KTrue {
				return false
			}
			if t.K == KFalse {
				return true
			}
		} else {
			if t.K == KFalse {
				return false
			}
			if t.K == KTrue {
				return true
			}
		}
		flat = append(flat, t)
		return false
	}
	for _, a := range args {
		if rec(a) {
			return Bool(k == KBOr)
		}
	}
	sortByID(flat)
	out := flat[:0]
	for i, t := range flat {
		if i > 0 && flat[i-1] == t {
			continue
		}
		out = append(out, t)
	}
	flat = out
	ids := map[int]bool{}
	for _, t := range flat {
		ids[t.ID] = true
	}
	for _, t := range flat {
		if t.K == KBNot && ids[t.Args[0].ID] {
			return Bool(k == KBOr)
		}
	}
	if len(flat) == 0 {
		return Bool(k == KBAnd)
	}
	if len(flat) == 1 {
		return flat[0]
	}
	return mk(&Term{K: k, Args: flat})
}

func BAnd(args ...*Term) *Term { return boolN(KBAnd, args) }
func BOr(args ...*Term) *Term  { return boolN(KBOr, args) }

func BNot(a *Term) *Term {
	switch a.K {
	case KTrue:
		return False
	case KFalse:
		return True
	case KBNot:
		return a.Args[0]
	}
	return mk(&Term{K: KBNot, Args: []*Term{a}})
}

// UF applies an uninterpreted function. w==0 => Bool result.
func UF(name string, w int, args ...*Term) *Term {
	var sb strings.Builder
	sb.WriteString(name)
	for _, a := range args {
		fmt.Fprintf(&sb, "_%d", a.W)
	}
	fmt.Fprintf(&sb, "__%d", w)
	return mk(&Term{K: KUF, W: w, Name: sb.String(), Args: append([]*Term(nil), args...)})
}

// NewTable registers (or finds) a concrete table.
func NewTable(name string, idxW, elemW int, vals []uint64) *Table {
	var sb strings.Builder
	fmt.Fprintf(&sb, "%d:%d:", idxW, elemW)
	for _, v := range vals {
		fmt.Fprintf(&sb, "%x,", v)
	}
	k := sb.String()
	if t, ok := tables[k]; ok {
		return t
	}
	t := &Table{ID: len(tables) + 1, Name: name, IdxW: idxW, ElemW: elemW, Vals: append([]uint64(nil), vals...)}
	tables[k] = t
	return t
}

func Select(tab *Table, idx *Term) *Term {
	if idx.W != tab.IdxW {
		panic("Select index width")
	}
	if v, ok := idx.U64(); ok {
		if int(v) < len(tab.Vals) {
			return Const(tab.ElemW, tab.Vals[v])
		}
		return Const(tab.ElemW, 0)
	}
	if r := selectSimplify(tab, idx); r != nil {
		return r
	}
	return mk(&Term{K: KSelect, W: tab.ElemW, Args: []*Term{idx}, Tab: tab})
}

// tabAt is the value of a table at i (entries beyond len(Vals) read as 0, as in Select).
func tabAt(t *Table, i uint64) uint64 {
	if i < uint64(len(t.Vals)) {
		return t.Vals[i]
	}
	return 0
}

// selectSimplify: lookups in concrete tables that need no solver.
//   - a lookup whose index is itself a lookup (decodeMap[encodeMap[i]], asciiSpace[table[i]]) is a
//     lookup in the composed table (index domain at most 2^16 entries);
//   - a table that is constant over its whole index domain is that constant;
//   - a table that is the identity over its whole index domain is a zero extension/truncation.
func selectSimplify(tab *Table, idx *Term) *Term {
	if tab.IdxW > 16 {
		return nil
	}
	if idx.K == KSelect && idx.Tab.IdxW <= 16 {
		in := idx.Tab
		n := 1 << uint(in.IdxW)
		vals := make([]uint64, n)
		for i := 0; i < n; i++ {
			vals[i] = tabAt(tab, tabAt(in, uint64(i)))
		}
		return Select(NewTable("comp", in.IdxW, tab.ElemW, vals), idx.Args[0])
	}
	n := uint64(1) << uint(tab.IdxW)
	allEq, ident := true, true
	for i := uint64(0); i < n; i++ {
		v := tabAt(tab, i)
		if v != tabAt(tab, 0) {
			allEq = false
		}
		if v != i {
			ident = false
		}
		if !allEq && !ident {
			return nil
		}
	}
	if allEq {
		return Const(tab.ElemW, tabAt(tab, 0))
	}
	if ident {
		if tab.ElemW >= tab.IdxW {
			return Zext(idx, tab.ElemW)
		}
		return Extract(idx, tab.ElemW-1, 0)
	}
	return nil
}

// selectEqConst decides select(tab, i) == k by scanning the table: no entry equal => false, all
// entries equal => true, exactly one entry equal => i == that index.
func selectEqConst(s *Term, k *Term) *Term {
	tab := s.Tab
	if tab.IdxW > 16 || k.W > 64 {
		return nil
	}
	n := uint64(1) << uint(tab.IdxW)
	cnt, at := uint64(0), uint64(0)
	for i := uint64(0); i < n; i++ {
		if tabAt(tab, i) == k.V {
			cnt++
			at = i
		}
	}
	switch cnt {
	case 0:
		return False
	case n:
		return True
	case 1:
		return Eq(s.Args[0], Const(tab.IdxW, at))
	}
	return nil
}

// HasSym reports whether t contains any variable or UF.
func (t *Term) HasSym() bool {
	if t.hasS != 0 {
		return t.hasS == 1
	}
	r := false
	switch t.K {
	case KVar, KUF:
		r = true
	default:
		for _, a := range t.Args {
			if a.HasSym() {
				r = true
				break
			}
		}
	}
	if r {
		t.hasS = 1
	} else {
		t.hasS = 2
	}
	return r
}

// Size returns the number of distinct nodes reachable from t.
func Size(ts ...*Term) int {
	seen := map[int]bool{}
	var rec func(t *Term)
	rec = func(t *Term) {
		if seen[t.ID] {
			return
		}
		seen[t.ID] = true
		for _, a := range t.Args {
			rec(a)
		}
	}
	for _, t := range ts {
		rec(t)
	}
	return len(seen)
}

func (t *Term) String() string {
	switch t.K {
	case KConst:
		if t.Big != nil {
			return fmt.Sprintf("0x%s:%d", t.Big.Text(16), t.W)
		}
		return fmt.Sprintf("0x%x:%d", t.V, t.W)
	case KVar:
		return t.Name
	case KTrue:
		return "true"
	case KFalse:
		return "false"
	}
	return fmt.Sprintf("t%d", t.ID)
}

// BigInt aliases math/big.Int for callers that only need models.
type BigInt = big.Int

// Eval evaluates t under a model of its variables; ok=false if t contains UF/table terms
// whose value the model does not determine.
func Eval(t *Term, model map[string]*big.Int) (*big.Int, bool) {
	memo := map[int]*big.Int{}
	okAll := true
	var ev func(t *Term) *big.Int
	modw := func(v *big.Int, w int) *big.Int {
		if w == 0 {
			w = 1
		}
		m := new(big.Int).Lsh(big.NewInt(1), uint(w))
		return v.Mod(v, m)
	}
	signed := func(v *big.Int, w int) *big.Int {
		if v.Bit(w-1) == 1 {
			return new(big.Int).Sub(v, new(big.Int).Lsh(big.NewInt(1), uint(w)))
		}
		return new(big.Int).Set(v)
	}
	b2i := func(b bool) *big.Int {
		if b {
			return big.NewInt(1)
		}
		return big.NewInt(0)
	}
	ev = func(t *Term) *big.Int {
		if v, ok := memo[t.ID]; ok {
			return v
		}
		var r *big.Int
		a := func(i int) *big.Int { return ev(t.Args[i]) }
		switch t.K {
		case KConst:
			r = new(big.Int).Set(t.BigVal())
		case KTrue:
			r = big.NewInt(1)
		case KFalse:
			r = big.NewInt(0)
		case KVar:
			if v, ok := model[t.Name]; ok {
				r = new(big.Int).Set(v)
			} else {
				r = big.NewInt(0)
			}
		case KAdd:
			r = big.NewInt(0)
			for i := range t.Args {
				r.Add(r, a(i))
			}
			modw(r, t.W)
		case KMul:
			r = big.NewInt(1)
			for i := range t.Args {
				r.Mul(r, a(i))
			}
			modw(r, t.W)
		case KAnd:
			r = new(big.Int).Set(a(0))
			for i := 1; i < len(t.Args); i++ {
				r.And(r, a(i))
			}
		case KOr:
			r = new(big.Int).Set(a(0))
			for i := 1; i < len(t.Args); i++ {
				r.Or(r, a(i))
			}
		case KXor:
			r = new(big.Int).Set(a(0))
			for i := 1; i < len(t.Args); i++ {
				r.Xor(r, a(i))
			}
		case KNot:
			full := new(big.Int).Sub(new(big.Int).Lsh(big.NewInt(1), uint(t.W)), big.NewInt(1))
			r = new(big.Int).Xor(a(0), full)
		case KNeg:
			r = modw(new(big.Int).Neg(a(0)), t.W)
		case KShl:
			s := a(1)
			if !s.IsUint64() || s.Uint64() >= uint64(t.W) {
				r = big.NewInt(0)
			} else {
				r = modw(new(big.Int).Lsh(a(0), uint(s.Uint64())), t.W)
			}
		case KLshr:
			s := a(1)
			if !s.IsUint64() || s.Uint64() >= uint64(t.W) {
				r = big.NewInt(0)
			} else {
				r = new(big.Int).Rsh(a(0), uint(s.Uint64()))
			}
		case KAshr:
			s := a(1)
			sh := uint(t.W - 1)
			if s.IsUint64() && s.Uint64() < uint64(t.W) {
				sh = uint(s.Uint64())
			}
			r = modw(new(big.Int).Rsh(signed(a(0), t.W), sh), t.W)
		case KUdiv:
			if a(1).Sign() == 0 {
				r = new(big.Int).Sub(new(big.Int).Lsh(big.NewInt(1), uint(t.W)), big.NewInt(1))
			} else {
				r = new(big.Int).Div(a(0), a(1))
			}
		case KUrem:
			if a(1).Sign() == 0 {
				r = new(big.Int).Set(a(0))
			} else {
				r = new(big.Int).Mod(a(0), a(1))
			}
		case KSdiv:
			x, y := signed(a(0), t.W), signed(a(1), t.W)
			if y.Sign() == 0 {
				if x.Sign() < 0 {
					r = big.NewInt(1)
				} else {
					r = new(big.Int).Sub(new(big.Int).Lsh(big.NewInt(1), uint(t.W)), big.NewInt(1))
				}
			} else {
				r = modw(new(big.Int).Quo(x, y), t.W)
			}
		case KSrem:
			x, y := signed(a(0), t.W), signed(a(1), t.W)
			if y.Sign() == 0 {
				r = new(big.Int).Set(a(0))
			} else {
				r = modw(new(big.Int).Rem(x, y), t.W)
			}
		case KExtract:
			r = modw(new(big.Int).Rsh(a(0), uint(t.Lo)), t.W)
		case KConcat:
			r = big.NewInt(0)
			for i, x := range t.Args {
				r.Lsh(r, uint(x.W))
				r.Or(r, a(i))
			}
		case KSext:
			r = modw(signed(a(0), t.Args[0].W), t.W)
		case KIte:
			if a(0).Sign() != 0 {
				r = a(1)
			} else {
				r = a(2)
			}
		case KEq:
			r = b2i(a(0).Cmp(a(1)) == 0)
		case KUlt:
			r = b2i(a(0).Cmp(a(1)) < 0)
		case KUle:
			r = b2i(a(0).Cmp(a(1)) <= 0)
		case KSlt:
			r = b2i(signed(a(0), t.Args[0].W).Cmp(signed(a(1), t.Args[0].W)) < 0)
		case KSle:
			r = b2i(signed(a(0), t.Args[0].W).Cmp(signed(a(1), t.Args[0].W)) <= 0)
		case KBAnd:
			r = big.NewInt(1)
			for i := range t.Args {
				if a(i).Sign() == 0 {
					r = big.NewInt(0)
				}
			}
		case KBOr:
			r = big.NewInt(0)
			for i := range t.Args {
				if a(i).Sign() != 0 {
					r = big.NewInt(1)
				}
			}
		case KBNot:
			r = b2i(a(0).Sign() == 0)
		case KSelect:
			i := a(0)
			if i.IsUint64() && i.Uint64() < uint64(len(t.Tab.Vals)) {
				r = new(big.Int).SetUint64(t.Tab.Vals[i.Uint64()])
			} else {
				okAll = false
				r = big.NewInt(0)
			}
		default:
			okAll = false
			r = big.NewInt(0)
		}
		memo[t.ID] = r
		return r
	}
	v := ev(t)
	return v, okAll
}
