#!/usr/bin/env python3
"""Prints a markdown table of seeded/<SEED>/meta.json (seed, verdict, what caught it / why not)."""
import json, os, sys

root = os.path.join(os.path.dirname(os.path.dirname(os.path.abspath(__file__))), "seeded")
rows = []
for d in sorted(os.listdir(root)):
    p = os.path.join(root, d, "meta.json")
    if not os.path.exists(p):
        continue
    m = json.load(open(p))
    verdict = m.get("verdict_after_strengthening") or m.get("verdict")
    what = m.get("caught_by") if verdict == "caught" else m.get("diagnosis")
    if m.get("caught_by_after_strengthening"):
        what = m["caught_by_after_strengthening"]
    summ = (m.get("summary") or "").replace("\n", " ").replace("|", "/")
    what = (what or "").replace("\n", " ").replace("|", "/")
    rows.append((d, m.get("property"), verdict, summ[:150], what[:220]))
print("| Seed | Change | Verdict | Caught by / why not |")
print("|---|---|---|---|")
for d, pid, v, s, w in rows:
    print("| %s | %s | %s | %s |" % (d, s, v, w))
n = len(rows)
c = sum(1 for r in rows if r[2] == "caught")
print()
print("%d seeded changes, %d caught, %d not caught" % (n, c, n - c))
