#!/usr/bin/env python3
"""Runs the registered checks (all, or the ids given) at one tier, a few at a time, and prints
one line per check: id, exit code, wall seconds, summary. Evidence files are (re)written by the
checks themselves. Usage: tools/run_all.py [--tier quick|thorough] [--par N] [ID ...]"""
import concurrent.futures as cf, json, os, subprocess, sys, time

ROOT = os.path.dirname(os.path.dirname(os.path.abspath(__file__)))


def run(pid, tier, jobs):
    t0 = time.time()
    env = dict(os.environ, VERIF_JOBS=str(jobs))
    try:
        r = subprocess.run(["./check", pid, "--tier", tier], cwd=ROOT, capture_output=True, text=True, env=env, timeout=4 * 3600)
        out, rc = r.stdout, r.returncode
    except subprocess.TimeoutExpired:
        out, rc = "TIMEOUT", 99
    lines = [l for l in out.splitlines() if l.startswith(("VIOLATION", "KNOWN-FINDING", "INCONCLUSIVE", pid + " tier="))]
    return pid, rc, time.time() - t0, lines


def main():
    args = sys.argv[1:]
    tier, par, ids = "quick", 3, []
    i = 0
    while i < len(args):
        if args[i] == "--tier":
            tier = args[i + 1]; i += 2
        elif args[i] == "--par":
            par = int(args[i + 1]); i += 2
        else:
            ids.append(args[i]); i += 1
    if not ids:
        ids = sorted(f[:-5] for f in os.listdir(os.path.join(ROOT, "checks")) if f.endswith(".json"))
    jobs = max(2, 16 // par)
    with cf.ThreadPoolExecutor(max_workers=par) as ex:
        for pid, rc, wall, lines in ex.map(lambda p: run(p, tier, jobs), ids):
            print("%s exit=%d wall=%.0fs" % (pid, rc, wall))
            for l in lines:
                print("    " + l[:300])
            sys.stdout.flush()


if __name__ == "__main__":
    main()
