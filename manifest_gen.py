#!/usr/bin/env python3
"""Regenerates MANIFEST.json from checks/<ID>.json (claims) and na.json (not-applicable reasons)."""
import json, os
checks = {f[:-5]: json.load(open('checks/' + f)) for f in sorted(os.listdir('checks')) if f.endswith('.json')}
na = json.load(open('na.json'))
props = [json.loads(l)['id'] for l in open('properties.jsonl')]
m = {
 "version": 1,
 "setup_cmd": "./build.sh",
 "hooks": {
  "guard": "verif",
  "enable": "harness files (//go:build verif) live in /verif/harness and are injected into /repo packages by build overlay (go/packages Overlay for the symbolic engine, go test -tags verif -overlay for native replay); /repo itself carries no hook code",
  "baseline_off_cmd": "cd /repo && go test -mod=mod -vet=off -count=1 -timeout 25m ./...",
  "source_commits": [],
  "add_only": True
 },
 "engines": [{"name": "gosym", "path": "engine", "serves_properties": sorted(checks), "kind_free_text": "SSA-level symbolic executor for Go written for this task (go/ssa -> hash-consed bit-vector terms with AC/concat normalisation -> SMT-LIB2 -> z3 4.8.12 / cvc5 / z3 5.1 portfolio); path exploration by re-execution with solver-decided forks; every counterexample is replayed natively (go test -overlay) before it is reported"}],
 "checks": [],
 "not_applicable": [],
 "notes": "exit codes of every check: 0 all obligations unsat within the stated bounds; 1 natively reproduced violation (VIOLATION line); 2 inconclusive (solver unknown, unwinding bound hit, encoder gap, harness no longer compiles) - never reported as success. Bounds, stubs and assumptions per property are in evidence/<id>.json and DESIGN.md section 4/9."
}
for pid in props:
    if pid in checks:
        c = checks[pid]
        m["checks"].append({
         "property_id": pid,
         "quick_cmd": "./check %s --tier quick" % pid,
         "thorough_cmd": "./check %s --tier thorough" % pid,
         "evidence_file": "evidence/%s.json" % pid,
         "replay_cmd_template": "./check %s --replay {path}" % pid,
         "engine": "gosym",
         "technique": c.get("technique", "bounded symbolic execution of the real Go code (go/ssa) with SMT-decided assertions and native counterexample replay"),
         "level_claimed": {"category": "model_checking", "text": c["claim"], "design_ref": "DESIGN.md section 4 %s, section 9" % pid},
         "level_note": c["note"],
        })
    else:
        m["not_applicable"].append({"property_id": pid, "reason": na.get(pid, "no solver-based check has been built for this property yet")})
json.dump(m, open('MANIFEST.json', 'w'), indent=1)
print(len(m["checks"]), "checks,", len(m["not_applicable"]), "not applicable")
