#!/bin/sh
# Builds the symbolic engine from /verif/engine (module cache only, offline).
set -e
cd /verif/engine
export PATH=/opt/veriftools/go1.26.8/bin:$PATH GOFLAGS=-mod=mod GOPROXY=off GOSUMDB=off GOTOOLCHAIN=local
mkdir -p /verif/bin
go build -o /verif/bin/gosym ./cmd/gosym
