#!/bin/sh
# Builds the symbolic engine from ./engine next to this script (module cache only, offline).
set -e
ROOT=$(cd "$(dirname "$0")" && pwd)
cd "$ROOT/engine"
export PATH=/opt/veriftools/go1.26.8/bin:$PATH GOFLAGS=-mod=mod GOPROXY=off GOSUMDB=off GOTOOLCHAIN=local
mkdir -p "$ROOT/bin"
go build -o "$ROOT/bin/gosym" ./cmd/gosym
